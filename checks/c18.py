"""C18 - t2grid.rectgeo inverts grid generation from a rectangular geometry.

Space: rectangular geometries nx, ny in 1..4 (not both 1) x nz in 2..4 (plus one 10 x 12 x 14) x atmosphere
type x EVERY surface assignment of the shape's family x rotation angle lattice, crossed completely; spacing
pattern, shift, data-file path, naming conventions (generating / requested), boundary blocks, explicit origin
block and remove_inactive as deviations from a base configuration, bounded by k (see BOUNDS).
Oracle: the property statement, evaluated against ref/rectmodel.py (arithmetic model of the generating
geometry): returned geometry has the model's atmosphere type, layers, origin-block position, orientation,
spacings, column rectangles and surfaces; t2grid().fromgeo(geo2, blockmap) has the original grid's block
names, volumes and connections.  Only the first failed clause of a case is reported (later clauses are its
echo); the input class of a signature is the shape class plus the deviations that are NECESSARY for the
failure (each deviation is reverted in turn and dropped when the same clause still fails).
"""
import contextlib
import io
import math
import os

from mc import core
from ref import rectmodel as rm

ID = 'C18'
LEVEL = 'exploration'
ENGINE = 'E2'
EXHAUSTIVE = True
RULE = ('one case = one rectangular geometry (shape, three spacing patterns, shift, rotation with permeability_angle = '
        '-angle, atmosphere type, one surface code per column) x configuration (generating and requested naming '
        'convention, boundary block kind, origin block given or detected, remove_inactive, in memory or through a '
        'written and re-read data file); shapes x atmosphere x surface family x angles are crossed, the other '
        'dimensions are all combinations of <= k deviations from the base; a case may carry a history (the same '
        'geometry object converted before with a primer surface, after or before it was moved) and may be observed twice '
        '(rectgeo on the grid in memory before and after it was written / reverse-engineered / regenerated, the grid and '
        'every argument compared with their state before); every case runs fromgeo -> rectgeo -> '
        'fromgeo on the real code and is non-trivial (>= 4 blocks, >= 2 layers); distinct = distinct case tuple')
ASSUMPTIONS = [
    'rotation is applied the way the library itself does it: geo.rotate(a, origin); geo.permeability_angle = -a '
    '(otherwise the direction labels of the forward conversion near 45 degrees + k*90 are decided by rounding)',
    'rectgeo is called with atmos_type equal to the generating type and default atmos_volume / layer_snap; the '
    'generating geometry\'s atmosphere volume is 1e25 (default), 0 (inactive atmosphere; with remove_inactive the '
    'atmosphere blocks are moved to the end of the block list, the TOUGH2 convention) or 1e50, and is given to the '
    'reconstructed geometry before the grid is regenerated (it is not recoverable, like the atmosphere type)',
    'surfaces are layer boundaries, half a top layer above the top layer (MULgraph extends the top block), or leave '
    'a partial top block of at least a quarter of a 0.5 m layer (> layer_snap = 0.1); the bottom layer is complete '
    'and never partial; at least one column reaches the top of the top layer (otherwise the grid does not '
    'contain the top layer thickness and nothing can invert it)',
    'boundary blocks (volume 0 or 1e50) are appended after all geometric blocks, attached by one connection to the '
    'top (direction 3), bottom (3; one block under the origin column, or one under every column) or a side (1, 2) of '
    'the grid, with or without a centre (a centre below the grid included: the origin block must still be found); a '
    'boundary block on top of the grid only with atmosphere type 2 (next to an atmosphere block it is '
    'indistinguishable from it)',
    'data-file routes: mesh inside the data file, in a separate text MESH file, in binary MESHA/MESHB files; the binary '
    'format returns zeros for an absent centre, which is accepted as the format, not compared',
    'after the data-file path quantities are compared to the tolerances that follow from the measured '
    'rounding of the file (block centres 4 digits, volumes/distances/areas 5 digits), in memory to 1e-7 relative '
    'input perturbation',
    'reference: ref/rectmodel.py (cumulative sums, one rotation formula); the generating geometry itself is '
    'checked against it first (clause forward)',
    'a geometry with a history is changed the documented way: column.surface assigned, set_column_num_layers for the '
    'column, then setup_block_name_index and setup_block_connection_name_index; the earlier grid stays alive',
    'observing operations (t2data.write in each flavour, rectgeo, fromgeo(geo2, blockmap)) are not documented to modify '
    'the grid, the geometry or the block map they are given: their complete visible state is compared exactly before '
    'and after; the second rectgeo result is compared with the first to 1e-9 relative',
    'naming convention 1 (two digits for the column) is not in the space for >= 100 columns (the library refuses it)',
    'rectgeo calls are limited to 20 s (120 s for >= 100 columns): a timeout is a violation (rectgeo is known to loop '
    'for ever on direction ties), not a verdict on speed - the unchanged tree needs < 0.05 s (< 2 s)']
BOUNDS = {
    'quick': {'shapes': '(1,2) (2,1) (2,2) (3,2) (1,3) (3,3) x nz 2..3', 'angles': [0, 30, 135, -45],
              'atmosphere volume': 'for types 0, 1: {1e25, 0, 1e50, 0 + remove_inactive} crossed with every surface '
                                   'and angle; x file and shift at angles 0, 30; also a configuration deviation',
              'surface': 'all assignments of {top, one layer down, mid first layer} with >= 1 top and all of {top, half a '
                         'layer above the top layer} for <= 4 columns; flat, all above, stair, slope and every '
                         'single-column deviation (down, mid, above) otherwise',
              'geometric deviations (spacing pattern 8, shift 1, file 1)': 'k <= 1, at angles 0 and 30 (other angles: base only)',
              'configuration deviations (convention pair 15, boundary kind 16, origin block 1, remove_inactive 1, '
              'file 1, angle 30, stair surface)': 'k <= 1', 'big': 'none',
              'history of the generating geometry': '8 (primer flat, above, stair, slope, mid, down converted after the move; '
                                                    'flat and the same surface converted before the move) x every surface of '
                                                    'the family x angles 0, 30; x 5 deviations (atmosphere volume, file, '
                                                    'conventions, spacing) on the slope surface',
              'observed twice (no side effects, rectgeo repeatable)': '4 routes (memory, data file, MESH, binary) x 6 convention '
                                                                      'pairs x {flat, stair} x {no boundary block, Q0001 under / '
                                                                      'beside the grid, one under every column; inactive '
                                                                      'atmosphere removed; history}',
              'wide (>= 100 columns: names of convention 2 that TOUGH2 spells differently)': '10x10x2, 11x10x2 x 6 convention '
              'pairs without convention 1 x {flat, stair, slope} x 4 routes, + boundary blocks through a file, + 2 histories; '
              'all observed twice'},
    'thorough': {'shapes': 'all nx, ny in 1..4 not both 1 x nz 2..4, and 10x12x14',
                 'angles': [0, 30, 45, 90, 135, 180, -45, 200, 1e-06, 180.000001],
                 'surface': 'as quick', 'atmosphere volume': 'as quick',
                 'geometric deviations (spacing pattern 8, shift 1, file 1)': 'k <= 1 plus file x (shift, spacing), at angles '
                                                                             '0 and 30 (other angles: base only)',
                 'configuration deviations': 'k <= 2',
                 'big': '10x12x14 geometric spacing: 3 angles x 3 atmospheres x {flat, stair, slope} x file',
                 'history of the generating geometry': 'as quick, on every shape',
                 'observed twice (no side effects, rectgeo repeatable)': 'as quick, on every shape',
                 'wide': '10x10x2, 11x10x2, 10x11x2, 12x12x2, otherwise as quick'}}
TECHNIQUE = ('bounded exhaustive enumeration of rectangular geometries x configurations through the real '
             'fromgeo -> (data file) -> rectgeo -> fromgeo chain against an arithmetic reference model')
LEVEL_TEXT = ('Every geometry of the stated family (shape x atmosphere x surface assignment x angle, crossed) and every '
              'combination of <= k configuration deviations is converted, reverse-engineered and converted again by the '
              'real code; spacings, position, orientation, surfaces, names, volumes and connection data are all compared '
              'with an independent model, so a change in direction tracking, spacing, block mapping, position matching '
              'or surface finding meets a case on which it shows.')
LEVEL_NOTE = ('Spacings come from three patterns and their single-direction deviations, not arbitrary reals; sizes above '
              '4 x 4 x 4 are represented by one 10 x 12 x 14 family; tolerances after the file path are the (loose) '
              'propagated rounding of 4-digit block centres.')

BASE_DX, BASE_DY, BASE_DZ = 10.0, 7.0, 2.0
SHIFTS = [(0.0, 0.0, 0.0), (100.0, 200.0, -50.0), (100.0, 200.0, 500.0),     # a grid wholly above z = 0
          (10000.37, 20000.11, -50.0), (1800000.37, 5700000.11, 100.0)]   # far from the origin: map-grid coordinates
FAR = (3, 4)
ANGLES = {'quick': [0, 30, 135, -45], 'thorough': [0, 30, 45, 90, 135, 180, -45, 200, 1e-06, 180.000001]}
DEV_ANGLES = {'quick': [0, 30], 'thorough': [0, 30]}
SP_DEVS = [['i', 'i', 'i'], ['t', 't', 't'], ['i', 'u', 'u'], ['u', 'i', 'u'], ['u', 'u', 'i'],
           ['t', 'u', 'u'], ['u', 't', 'u'], ['u', 'u', 't']]
BND_KINDS = [[a, v, c] for a in ('top3', 'bot3', 'botall', 'side1', 'side2') for v in ('zero', 'huge') for c in ('n', 'c')]
BND_NAMES = ['bdy 1', 'bdy 2', 'bdy 3', 'zzz99', 'AAA 1', '  z 9', 'b   7', 'Q0001']
BIG = (10, 12, 14)
# >= 100 columns: with naming convention 2 (2-character layer + 3-digit column) these have block names that the
# (a3,i2) reading of TOUGH2 spells differently in a data file (' a105' is written ' a1 5')
WIDE = {'quick': [(10, 10), (11, 10)], 'thorough': [(10, 10), (11, 10), (10, 11), (12, 12)]}
HIST = [[p, 'moved'] for p in ('flat', 'above', 'stair', 'slope', 'mid', 'down')] + [['flat', 'unmoved'], ['same', 'unmoved']]
TOP, DOWN, MID, ABOVE = [0, 4], [1, 4], [0, 2], [0, 6]
AVOL = {'d': 1.e25, 'z': 0.0, 'h': 1.e50}       # atmosphere volume of the generating geometry


# ---------------------------------------------------------------------------------------------- the space

def shapes(tier):
    if tier == 'quick':
        return [(nx, ny, nz) for (nx, ny) in ((1, 2), (2, 1), (2, 2), (3, 2), (1, 3), (3, 3)) for nz in (2, 3)]
    return [(nx, ny, nz) for nx in range(1, 5) for ny in range(1, 5) if (nx, ny) != (1, 1) for nz in (2, 3, 4)]


def stair(nx, ny, nz):
    return [[min(i + j, nz - 1), 4] for j in range(ny) for i in range(nx)]


def slope(nx, ny, nz):
    out = []
    for j in range(ny):
        for i in range(nx):
            t = 0.5 * (i / float(nx) + j / float(ny))
            L = min(int(t * (nz - 1)), nz - 2)
            out.append([L, [4, 2, 3][(i + 2 * j) % 3]])
    return out


def surface_family(nx, ny, nz):
    """Every surface of the family of a shape, as lists of [layer, quarter] codes in column order."""
    n = nx * ny
    fam = []
    if n <= 4:
        level = [[]]
        for _ in range(n):
            level = [s + [c] for s in level for c in (TOP, DOWN, MID)]
        fam = [s for s in level if TOP in s]
        level = [[]]
        for _ in range(n):
            level = [s + [c] for s in level for c in (TOP, ABOVE)]
        fam += [s for s in level if ABOVE in s]
    else:
        fam.append([TOP] * n)
        fam.append(stair(nx, ny, nz))
        fam.append(slope(nx, ny, nz))
        fam.append([ABOVE] * n)
        for k in range(n):
            for c in (DOWN, MID, ABOVE):
                s = [TOP] * n
                s[k] = c
                fam.append(s)
    seen, out = set(), []
    for s in fam:
        key = repr(s)
        if key not in seen:
            seen.add(key)
            out.append(s)
    return out


def base_case(nx, ny, nz, atm):
    return {'nx': nx, 'ny': ny, 'nz': nz, 'sp': ['u', 'u', 'u'], 'shift': 0, 'angle': 0, 'atm': atm,
            'surf': [TOP] * (nx * ny), 'cs': 0, 'cr': 0, 'bnd': None, 'ob': 'auto', 'rmi': False, 'file': False,
            'avol': 'd'}


def with_(case, **kw):
    c = dict(case)
    c.update(kw)
    return c


def normalise(case):
    """Contract exclusion: a boundary block on top of a column that also has an atmosphere block above it cannot be told from the
    atmosphere block (both are non-geometric blocks above the top block) - not in the space (None)."""
    if case['bnd'] and case['bnd'][0] == 'top3' and case['atm'] != 2:
        return None
    if 'avol' not in case or (case['avol'] != 'd' and case['atm'] == 2):
        case = with_(case, avol='d')            # no atmosphere blocks: the atmosphere volume is not in the grid
    return case


def combos(devs, k):
    """All combinations of <= k deviations on different dimensions; devs = [(dimension, update dict)]."""
    out = [[]]
    if k >= 1:
        out += [[d] for d in devs]
    if k >= 2:
        for a in range(len(devs)):
            for b in range(a + 1, len(devs)):
                if devs[a][0] != devs[b][0]:
                    out.append([devs[a], devs[b]])
    return out


def unit_cases(unit, tier):
    kind, nx, ny, nz, atm = unit
    base = base_case(nx, ny, nz, atm)
    seen = set()

    def emit(c):
        c = normalise(c)
        if c is None:
            return None
        key = case_key(c)
        if key in seen:
            return None
        seen.add(key)
        return c

    if kind == 'wide':
        n = nx * ny
        b = with_(base, sp=['i', 'i', 'u'], shift=1, rep=True)
        surfs = ([TOP] * n, stair(nx, ny, nz), slope(nx, ny, nz))
        for cs, cr in ((0, 0), (2, 2), (3, 3), (2, 0), (0, 2), (3, 2)):   # convention 1 has two digits for the column
            for s in surfs:
                for f in (False, True, 'mesh', 'binary'):
                    c = emit(with_(b, cs=cs, cr=cr, surf=s, file=f))
                    if c:
                        yield c
            for bnd in (['bot3', 'huge', 'c'], ['botall', 'zero', 'n']):
                c = emit(with_(b, cs=cs, cr=cr, bnd=bnd, bname='Q0001', file=True))
                if c:
                    yield c
            for h in (['flat', 'moved'], ['slope', 'moved']):
                for s in surfs:
                    c = emit(with_(b, cs=cs, cr=cr, surf=s, hist=h, angle=30))
                    if c:
                        yield c
        return
    if kind == 'big':
        b = with_(base, sp=['g', 'g', 'g'], shift=1)
        for ang in (0, 30, 135):
            for name, s in (('flat', [TOP] * (nx * ny)), ('stair', stair(nx, ny, nz)), ('slope', slope(nx, ny, nz))):
                for f in (False, True):
                    c = emit(with_(b, angle=ang, surf=s, file=f))
                    if c:
                        yield c
        return
    # A: geometry crossed, <= k deviations of (spacing, shift, file)
    gdevs = [('sp', {'sp': s}) for s in SP_DEVS] + [('shift', {'shift': 1}), ('file', {'file': True})]
    gsets = combos(gdevs, 1)
    if tier == 'thorough':
        gsets += [[('file', {'file': True}), d] for d in gdevs if d[0] != 'file']
    for s in surface_family(nx, ny, nz):
        for ang in ANGLES[tier]:
            g = with_(base, surf=s, angle=ang)
            for ds in (gsets if ang in DEV_ANGLES[tier] else gsets[:1]):
                c = g
                for _, upd in ds:
                    c = with_(c, **upd)
                c = emit(c)
                if c:
                    yield c
            if atm != 2:
                # inactive (zero-volume) or huge atmosphere, crossed with every surface and angle
                for upd in ({'avol': 'z'}, {'avol': 'h'}, {'avol': 'z', 'rmi': True}):
                    c = emit(with_(g, **upd))
                    if c:
                        yield c
                if ang in DEV_ANGLES[tier]:
                    for upd in ({'avol': 'z', 'file': True}, {'avol': 'h', 'file': True}, {'avol': 'z', 'shift': 1}):
                        c = emit(with_(g, **upd))
                        if c:
                            yield c
    # B: configuration deviations
    cdevs = [('conv', {'cs': a, 'cr': b}) for a in range(4) for b in range(4) if (a, b) != (0, 0)]
    cdevs += [('bnd', {'bnd': b}) for b in BND_KINDS]
    cdevs += [('avol', {'avol': 'z'}), ('avol', {'avol': 'h'})]
    cdevs += [('ob', {'ob': 'name'}), ('rmi', {'rmi': True}), ('file', {'file': True}), ('angle', {'angle': 30}),
              ('surf', {'surf': stair(nx, ny, nz)})]
    for ds in combos(cdevs, 2 if tier == 'thorough' else 1):
        c = with_(base, shift=1)
        for _, upd in ds:
            c = with_(c, **upd)
        c = emit(c)
        if c:
            yield c
    # C: data-file path x every convention pair, crossed in both tiers (what the file does not keep - e.g. the
    # atmosphere flag of a block - only shows when the block map has to rename)
    for a in range(4):
        for b in range(4):
            c = emit(with_(base, shift=1, file=True, cs=a, cr=b))
            if c:
                yield c
    # F: far from the origin (non-round map-grid coordinates, non-round spacings), every surface, in memory
    for sh in FAR:
        for s in surface_family(nx, ny, nz):
            for ang in (0, 30):
                for sp in (['u', 'u', 'u'], ['i', 'i', 'i']):
                    for route in ('translate', 'origin'):
                        c = emit(with_(base, shift=sh, surf=s, angle=ang, sp=sp, route=route))
                        if c:
                            yield c
    for sh in (1, 2):
        for ang in (0, 30):
            for s in ([TOP] * (nx * ny), stair(nx, ny, nz)):
                c = emit(with_(base, shift=sh, surf=s, angle=ang, route='origin'))
                if c:
                    yield c
    # G: snapping switched off (layer_snap = 0 or negative).  Only where every number of the grid is exactly
    # representable (no rotation, spacings 10 / 7 / 2 and their quarters, round shifts): elsewhere rounding can
    # leave the sliver blocks that the documentation of layer_snap warns about
    for snap in ('zero', 'negative'):
        for s in surface_family(nx, ny, nz):
            for sh in (0, 1):
                for sp in (['u', 'u', 'u'], ['t', 't', 't']):
                    c = emit(with_(base, shift=sh, surf=s, sp=sp, snap=snap))
                    if c:
                        yield c
    # E: mesh routes x vertical position x basal boundary blocks with centres, crossed (what a route does to an absent
    # centre, and which block is lowest, only interact)
    for sh in (0, 1, 2):
        for f in (False, True, 'mesh', 'binary'):
            for bnd in (None, ['botall', 'zero', 'c'], ['botall', 'huge', 'c'], ['bot3', 'huge', 'c'], ['botall', 'huge', 'n']):
                for surf in ([TOP] * (nx * ny), stair(nx, ny, nz)):
                    c = emit(with_(base, shift=sh, file=f, bnd=bnd, surf=surf))
                    if c:
                        yield c
    # H: histories of the generating geometry - the same geometry object was converted before, with another surface
    # (every primer x every surface of the family), after or before it was rotated and moved
    for s in surface_family(nx, ny, nz):
        for ang in (0, 30):
            for h in HIST:
                c = emit(with_(base, shift=1, surf=s, angle=ang, hist=h))
                if c:
                    yield c
    for h in HIST:
        for upd in ({'avol': 'z'}, {'avol': 'h', 'file': True}, {'cs': 2, 'cr': 2}, {'cs': 1, 'cr': 3}, {'sp': ['i', 'i', 'i']}):
            c = emit(with_(base, shift=1, surf=slope(nx, ny, nz), angle=30, hist=h, **upd))
            if c:
                yield c
    # R: the observing operations (data file in each flavour, rectgeo, fromgeo of its result) leave the grid in memory
    # as it was, and rectgeo applied to it again gives the same result; block names of every convention, boundary
    # blocks whose names TOUGH2 reads as (a3,i2) differently ('Q0001')
    for f in (False, True, 'mesh', 'binary'):
        for cs, cr in ((0, 0), (1, 1), (2, 2), (3, 3), (2, 0), (0, 2)):
            for surf in ([TOP] * (nx * ny), stair(nx, ny, nz)):
                for bnd, bname in ((None, 'bdy 1'), (['bot3', 'huge', 'c'], 'Q0001'), (['side1', 'zero', 'n'], 'Q0001'),
                                   (['botall', 'zero', 'n'], 'bdy 1')):
                    for upd in ({}, {'avol': 'z', 'rmi': True}, {'hist': ['flat', 'moved'], 'angle': 30}):
                        if upd and bnd:
                            continue
                        c = emit(with_(base, shift=1, file=f, cs=cs, cr=cr, surf=surf, bnd=bnd, bname=bname, rep=True, **upd))
                        if c:
                            yield c
    # D: a basal boundary block under a column that is ONE block high, next to that block's atmosphere connection.
    # Which of the two direction-3 neighbours the library meets first depends on the iteration order of a set
    # of name tuples; the boundary block's name is a dimension so that both orders occur under the fixed hash seed.
    if nz == 2 and atm != 2:
        for s in surface_family(nx, ny, nz):
            if s[0] != DOWN:
                continue
            for vol in ('zero', 'huge'):
                for cen in ('n', 'c'):
                    for bname in BND_NAMES:
                        c = emit(with_(base, surf=s, bnd=['bot3', vol, cen], bname=bname))
                        if c:
                            yield c


def units(tier):
    us = [('std', nx, ny, nz, atm) for (nx, ny, nz) in shapes(tier) for atm in (0, 1, 2)]
    if tier == 'thorough':
        us += [('big',) + BIG + (atm,) for atm in (0, 1, 2)]
    us += [('wide', nx, ny, 2, atm) for (nx, ny) in WIDE[tier] for atm in (0, 1, 2)]
    return us


def case_key(c):
    return repr((c['nx'], c['ny'], c['nz'], c['sp'], c['shift'], c['angle'], c['atm'], c['surf'], c['cs'], c['cr'],
                 c['bnd'], c['ob'], c['rmi'], c['file'], c.get('avol', 'd'), c.get('bname', 'bdy 1'),
                 c.get('snap', 'default'), c.get('route', 'translate'), c.get('hist'), bool(c.get('rep'))))


# ---------------------------------------------------------------------------------------------- one case

def model_of(case):
    dx = rm.spacing(case['sp'][0], case['nx'], BASE_DX)
    dy = rm.spacing(case['sp'][1], case['ny'], BASE_DY)
    dz = rm.spacing(case['sp'][2], case['nz'], BASE_DZ)
    if case['sp'][2] == 'g':
        dz = rm.spacing('g', case['nz'], 0.5)
    return rm.Model(dx, dy, dz, case['angle'], SHIFTS[case['shift']], case['surf'])


class Fail(Exception):
    def __init__(self, site, clause, what):
        Exception.__init__(self, what)
        self.site, self.clause, self.what = site, clause, what


def quiet():
    return contextlib.redirect_stdout(io.StringIO())


_ALIVE = []
PRIMERS = ('flat', 'above', 'stair', 'slope', 'mid', 'down', 'same')


def primer_surface(name, case):
    nx, ny, nz = case['nx'], case['ny'], case['nz']
    n = nx * ny
    if name == 'flat':
        return [TOP] * n
    if name == 'above':
        return [ABOVE] * n
    if name == 'stair':
        return stair(nx, ny, nz)
    if name == 'slope':
        return slope(nx, ny, nz)
    if name == 'mid':
        return [MID] * (n - 1) + [TOP]
    if name == 'down':
        return [DOWN] * (n - 1) + [TOP]
    return case['surf']


def set_surfaces(geo, surf):
    for k, col in enumerate(geo.columnlist):
        L, q = surf[k]
        lay = geo.layerlist[L + 1]
        col.surface = lay.top if q == 4 else lay.bottom + 0.25 * q * (lay.top - lay.bottom)
        geo.set_column_num_layers(col)
    geo.setup_block_name_index()
    geo.setup_block_connection_name_index()


def build_geometry(case, m):
    """The generating geometry.  With a history ('hist' = [primer surface, stage]) the SAME geometry object has
    been converted to a grid once before, with the primer surface (and the default atmosphere volume), either
    after ('moved') or before ('unmoved') it was rotated and translated; then it got the surfaces of the case."""
    import numpy as np
    from mulgrids import mulgrid
    from t2grids import t2grid
    by_origin = case.get('route', 'translate') == 'origin'
    shift = SHIFTS[case['shift']]
    hist = case.get('hist')
    if by_origin:      # the position given to rectangular() itself, rotation about that corner
        geo = mulgrid().rectangular(m.dx, m.dy, m.dz, convention=case['cs'], atmos_type=case['atm'], origin=list(shift))
    else:
        geo = mulgrid().rectangular(m.dx, m.dy, m.dz, convention=case['cs'], atmos_type=case['atm'])
    if hist:
        set_surfaces(geo, primer_surface(hist[0], case))
        if hist[1] == 'unmoved':
            earlier = t2grid().fromgeo(geo)
            set_surfaces(geo, case['surf'])
    else:
        set_surfaces(geo, case['surf'])
    if not hist and case.get('avol', 'd') != 'd':
        geo.atmosphere_volume = AVOL[case['avol']]
    if by_origin:
        geo.rotate(case['angle'], np.array(shift[:2]))
        geo.permeability_angle = -case['angle']
    else:
        geo.rotate(case['angle'], np.zeros(2))
        geo.permeability_angle = -case['angle']
        geo.translate(np.array(shift))
    if hist:
        if hist[1] == 'moved':
            earlier = t2grid().fromgeo(geo)
            set_surfaces(geo, case['surf'])
        if case.get('avol', 'd') != 'd':
            geo.atmosphere_volume = AVOL[case['avol']]
        _ALIVE[:] = [earlier]               # the earlier grid stays alive next to the one under test
    return geo


def check_forward(geo, m, tol):
    """The generating geometry is what the model says (rectangular, rotate 'clockwise', translate)."""
    if len(geo.columnlist) != m.nx * m.ny or len(geo.layerlist) != m.nz + 1:
        raise Fail('forward', 'size', 'rectangular() made %d columns, %d layers' % (len(geo.columnlist), len(geo.layerlist)))
    for j in range(m.ny):
        for i in range(m.nx):
            col = geo.columnlist[j * m.nx + i]
            c = m.centre(i, j)
            if max(abs(col.centre[0] - c[0]), abs(col.centre[1] - c[1])) > tol:
                raise Fail('forward', 'column-centre', 'column (%d,%d) centre %r, model %r' % (i, j, list(col.centre), c))
            want = m.corners(i, j)
            got = [tuple(n.pos) for n in col.node]
            if not same_points(got, want, tol):
                raise Fail('forward', 'column-corners', 'column (%d,%d) corners %r, model %r' % (i, j, got, want))
            if abs(col.surface - m.surface(i, j)) > tol:
                raise Fail('forward', 'surface', 'column (%d,%d) surface %r, model %r' % (i, j, col.surface, m.surface(i, j)))
    for L in range(m.nz):
        lay = geo.layerlist[L + 1]
        if abs(lay.top - m.layer_top(L)) > tol or abs(lay.bottom - m.layer_bottom(L)) > tol:
            raise Fail('forward', 'layers', 'layer %d is %r..%r, model %r..%r'
                       % (L, lay.bottom, lay.top, m.layer_bottom(L), m.layer_top(L)))


def same_points(got, want, tol):
    if len(got) != len(want):
        return False
    left = list(want)
    for p in got:
        hit = None
        for w in left:
            if abs(p[0] - w[0]) <= tol and abs(p[1] - w[1]) <= tol:
                hit = w
                break
        if hit is None:
            return False
        left.remove(hit)
    return True


def grid_summary(grid, skip=()):
    blocks = {}
    for b in grid.blocklist:
        if b.name not in skip:
            blocks[b.name] = float('nan') if b.volume is None else float(b.volume)
    cons = {}
    for c in grid.connectionlist:
        n0, n1 = c.block[0].name, c.block[1].name
        if n0 in skip or n1 in skip:
            continue
        cons[frozenset((n0, n1))] = (int(c.direction), {n0: float(c.distance[0]), n1: float(c.distance[1])},
                                     float(c.area))
    return blocks, cons


def _f(v):
    return None if v is None else float(v)


def _vec(v):
    return None if v is None else tuple(float(x) for x in v)


def grid_state(grid):
    """Everything a user can see of a grid, in the order the grid keeps it (the observing operations - writing the
    data file, rectgeo, fromgeo of rectgeo's result - must leave it exactly as it was)."""
    blocks = tuple((b.name, _f(b.volume), _vec(b.centre), b.rocktype.name if b.rocktype is not None else None,
                    bool(getattr(b, 'atmosphere', False)), tuple(sorted(b.connection_name)),
                    _f(b.ahtx), _f(b.pmx), b.nseq, b.nadd)
                   for b in grid.blocklist)
    bdict = tuple(sorted((k, v.name) for k, v in grid.block.items()))
    cons = tuple((c.block[0].name, c.block[1].name, int(c.direction), _vec(c.distance), _f(c.area), _f(c.dircos))
                 for c in grid.connectionlist)
    cdict = tuple(sorted((k, (v.block[0].name, v.block[1].name)) for k, v in grid.connection.items()))
    rocks = tuple(r.name for r in grid.rocktypelist)
    return (blocks, bdict, cons, cdict, rocks)


def geo_state(geo):
    """Everything a user can see of a geometry."""
    return (geo.convention, geo.atmosphere_type, _f(geo.atmosphere_volume), _f(geo.permeability_angle),
            tuple((l.name, _f(l.bottom), _f(l.top), _f(l.centre)) for l in geo.layerlist),
            tuple((n.name, _vec(n.pos)) for n in geo.nodelist),
            tuple((c.name, _vec(c.centre), _f(c.surface), int(c.num_layers), tuple(n.name for n in c.node))
                  for c in geo.columnlist),
            tuple(sorted(tuple(sorted(c.name for c in con.column)) for con in geo.connectionlist)),
            tuple(geo.block_name_list), tuple(tuple(x) for x in geo.block_connection_name_list))


def first_difference(a, b, tol=0.0, path=''):
    """None when two states are the same (numbers to tol), else a short text naming the first difference."""
    if isinstance(a, tuple) and isinstance(b, tuple):
        if len(a) != len(b):
            return '%s: %d items, before %d' % (path or 'state', len(b), len(a))
        for k, (x, y) in enumerate(zip(a, b)):
            d = first_difference(x, y, tol, '%s[%d]' % (path, k))
            if d:
                return d
        return None
    if isinstance(a, float) and isinstance(b, float):
        if a == b or (a != a and b != b) or abs(a - b) <= tol * max(1.0, abs(a), abs(b)):
            return None
        return '%s: %r, before %r' % (path, b, a)
    return None if a == b else '%s: %r, before %r' % (path, b, a)


def unchanged(site, clause, what, before, after):
    d = first_difference(before, after)
    if d:
        raise Fail(site, clause, '%s (%s)' % (what, d))


def add_boundary(case, geo, grid, m):
    """One boundary block 'bdy 1' after all geometric blocks, one connection."""
    import numpy as np
    from t2grids import t2block, t2connection
    attach, vol, cen = case['bnd']
    nx, ny, nz = m.nx, m.ny, m.nz
    lays = geo.layerlist

    def blk(L, i, j):
        return grid.block[geo.block_name(lays[L + 1].name, geo.columnlist[j * nx + i].name)]
    e1 = np.array([m.e1[0], m.e1[1], 0.0])
    e2 = np.array([m.e2[0], m.e2[1], 0.0])
    if attach == 'top3':
        i, j = nx - 1, ny - 1
        other, d = blk(case['surf'][j * nx + i][0], i, j), 3
        off = np.array([0.0, 0.0, m.dz[0]])
    elif attach == 'bot3':
        other, d, off = blk(nz - 1, 0, 0), 3, np.array([0.0, 0.0, -m.dz[-1]])
    elif attach == 'botall':
        # one boundary block under EVERY bottom block (a basal boundary condition), centres 20 m below the grid
        names = []
        for j in range(ny):
            for i in range(nx):
                other = blk(nz - 1, i, j)
                centre = None if cen == 'n' else other.centre + np.array([0.0, 0.0, -0.5 * m.dz[-1] - 20.0])
                b = t2block('bd%3d' % (j * nx + i + 1), 0.0 if vol == 'zero' else 1.e50, grid.rocktypelist[0], centre=centre)
                grid.add_block(b)
                grid.add_connection(t2connection([other, b], 3, [1.0, 1.e-9], 10.0, 1.0))
                names.append(b.name)
        return names
    elif attach == 'side1':
        other, d, off = blk(nz - 1, nx - 1, 0), 1, e1 * (0.5 * m.dx[-1] + 1.0)
    else:
        other, d, off = blk(nz - 1, 0, ny - 1), 2, e2 * (0.5 * m.dy[-1] + 1.0)
    centre = None if cen == 'n' else other.centre + off
    b = t2block(case.get('bname', 'bdy 1'), 0.0 if vol == 'zero' else 1.e50, grid.rocktypelist[0], centre=centre)
    grid.add_block(b)
    # gravity cosine as fromgeo writes it: -1 when the second block is above the first
    dircos = {'top3': -1.0, 'bot3': 1.0}.get(attach, 0.0)
    grid.add_connection(t2connection([other, b], d, [1.0, 1.e-9], 10.0, dircos))
    return b.name


def through_file(grid, mode=True):
    """mode True: mesh inside the data file; 'mesh': in a separate text MESH file; 'binary': in binary MESHA/MESHB
    files (which hold doubles, and zeros for a centre that is absent)."""
    from t2data import t2data
    dat = t2data()
    dat.grid = grid
    d = core.scratch()
    name = os.path.join(d, 'c18.dat')
    for f in ('c18.dat', 'c18.mesh', 'c18.mesha', 'c18.meshb'):
        if os.path.exists(os.path.join(d, f)):
            os.remove(os.path.join(d, f))
    if mode == 'binary':
        mesh = [os.path.join(d, 'c18.mesha'), os.path.join(d, 'c18.meshb')]
    elif mode == 'mesh':
        mesh = os.path.join(d, 'c18.mesh')
    else:
        mesh = ''
    if mesh:
        dat.write(name, meshfilename=mesh)
        back = t2data(name, meshfilename=mesh)
    else:
        dat.write(name)
        back = t2data(name)
    if back.grid.num_blocks != grid.num_blocks:
        raise Fail('datafile', 'block-count', '%d blocks re-read as %d' % (grid.num_blocks, back.grid.num_blocks))
    return back.grid


def measure_rounding(grid, grid_f, mode=True):
    """Largest rounding of block centres (absolute) and of volumes/distances/areas (relative) by the file."""
    dxy = dz = rel = 0.0
    for b in grid.blocklist:
        bf = grid_f.block.get(b.name)
        if bf is None:
            raise Fail('datafile', 'block-lost', 'block %r is not in the re-read grid' % b.name)
        if mode == 'binary' and b.centre is None:
            continue                    # the binary format has no way to say "no centre": zeros come back
        if (b.centre is None) != (bf.centre is None):
            raise Fail('datafile', 'centre-presence', 'block %r centre %r re-read as %r' % (b.name, b.centre, bf.centre))
        if b.centre is not None:
            dxy = max(dxy, abs(b.centre[0] - bf.centre[0]), abs(b.centre[1] - bf.centre[1]))
            dz = max(dz, abs(b.centre[2] - bf.centre[2]))
        if b.volume > 0:
            rel = max(rel, abs(b.volume - bf.volume) / b.volume)
    if len(grid.connectionlist) != len(grid_f.connectionlist):
        raise Fail('datafile', 'connection-count', '%d connections re-read as %d'
                   % (len(grid.connectionlist), len(grid_f.connectionlist)))
    for c, cf in zip(grid.connectionlist, grid_f.connectionlist):
        for a, b in ((c.distance[0], cf.distance[0]), (c.distance[1], cf.distance[1]), (c.area, cf.area)):
            if a > 0:
                rel = max(rel, abs(a - b) / a)
    return dxy, dz, rel


def rectgeo_observation(grid, kw, limit, site):
    try:
        with core.timelimit(limit):
            g, bm = grid.rectgeo(**kw)
    except core.CaseTimeout:
        raise Fail(site, 'timeout', 'rectgeo did not return within %d s' % limit)
    except Exception as e:
        raise Fail(site, 'exception:' + type(e).__name__, 'rectgeo raised %r' % e)
    return (geo_state(g), tuple(sorted(bm.items())))


def evaluate(case):
    """Runs one case on the real code.  Returns None (holds) or (site, clause, what)."""
    import numpy as np
    from t2grids import t2grid
    m = model_of(case)
    scale = m.coord_scale()
    try:
        with quiet():
            try:
                geo = build_geometry(case, m)
            except Exception as e:
                raise Fail('forward', 'exception:' + type(e).__name__, 'building the geometry raised %r' % e)
            check_forward(geo, m, (1e-12 if case['shift'] in FAR else 1e-9) * scale)
            rep = bool(case.get('rep'))
            if rep:
                geo_before = geo_state(geo)
            try:
                grid = t2grid().fromgeo(geo)
            except Exception as e:
                raise Fail('fromgeo', 'exception:' + type(e).__name__, 'fromgeo of the generating geometry raised %r' % e)
            if rep:
                unchanged('side-effect:fromgeo', 'geometry-changed', 'fromgeo changed the geometry it converted',
                          geo_before, geo_state(geo))
            orig_blocks, orig_cons = grid_summary(grid)
            colof = {}
            for name in orig_blocks:
                cn = geo.column_name(name)
                if cn in geo.column:
                    k = geo.columnlist.index(geo.column[cn])
                    colof[name] = (k % m.nx, k // m.nx)
            origin_name = geo.block_name(geo.layerlist[-1].name, geo.columnlist[0].name)
            if case['bnd']:
                add_boundary(case, geo, grid, m)
            if case.get('avol', 'd') == 'z' and case['rmi'] and case['atm'] != 2:
                # TOUGH2 convention for an inactive atmosphere: its blocks go to the end of the block list
                natm = geo.num_atmosphere_blocks
                names = [b.name for b in grid.blocklist]
                try:
                    grid.reorder(block_names=names[natm:] + names[:natm])
                except Exception as e:
                    raise Fail('reorder', 'exception:' + type(e).__name__, 'moving the atmosphere blocks to the end raised %r' % e)
            # rounding the grid suffers before rectgeo sees it
            dxy, dz, rel = 1e-7 * scale, 1e-7 * scale, 1e-7
            if case['shift'] in FAR:
                # far from the origin the comparison must not scale with the coordinates: doubles resolve 1e-9 m
                # at 5.7e6 m, and a block is where it is to 1e-12 of its coordinates whatever they are
                dxy, dz = 1e-12 * scale, 1e-12 * scale
            kw = {'atmos_type': case['atm'], 'convention': case['cr']}
            if case['ob'] == 'name':
                kw['origin_block'] = origin_name
            if case['rmi']:
                kw['remove_inactive'] = True
            if case.get('snap', 'default') != 'default':
                kw['layer_snap'] = {'zero': 0.0, 'negative': -1.0}[case['snap']]
            limit = 120 if case['nx'] * case['ny'] >= 100 else 20
            grid_mem = grid
            if rep:
                # the observing operations must not change the grid they observe: the in-memory grid is looked at
                # before anything has observed it, and rectgeo is applied to it a first time
                mem_before = grid_state(grid_mem)
                first = rectgeo_observation(grid_mem, kw, limit, 'rectgeo')
                unchanged('side-effect:rectgeo', 'grid-changed', 'rectgeo changed the grid it was applied to',
                          mem_before, grid_state(grid_mem))
            if case['file']:
                try:
                    grid_f = through_file(grid, case['file'])
                except Fail:
                    raise
                except Exception as e:
                    raise Fail('datafile', 'exception:' + type(e).__name__, 'writing/re-reading the grid raised %r' % e)
                if rep:
                    unchanged('side-effect:write', 'grid-changed', 'writing the data file changed the grid in memory',
                              mem_before, grid_state(grid_mem))
                fx, fz, fr = measure_rounding(grid, grid_f, case['file'])
                dxy, dz, rel = dxy + fx, dz + fz, rel + fr
                grid = grid_f
            try:
                with core.timelimit(limit):
                    geo2, bmap = grid.rectgeo(**kw)
            except core.CaseTimeout:
                raise Fail('rectgeo', 'timeout', 'rectgeo did not return within %d s' % limit)
            except Exception as e:
                raise Fail('rectgeo', 'exception:' + type(e).__name__, 'rectgeo raised %r' % e)
            check_geometry(geo2, m, case, dxy, dz, rel)
            try:
                # the atmosphere volume is the caller's knowledge, like the atmosphere type
                geo2.atmosphere_volume = geo.atmosphere_volume
                if rep:
                    args_before = (geo_state(geo2), tuple(sorted(bmap.items())))
                    seen_before = grid_state(grid)
                grid2 = t2grid().fromgeo(geo2, bmap)
            except Exception as e:
                raise Fail('fromgeo(geo2,blockmap)', 'exception:' + type(e).__name__,
                           'fromgeo of the reconstructed geometry with the block map raised %r' % e)
            check_grid(grid2, orig_blocks, orig_cons, colof, m, dxy, dz, rel)
            if rep:
                unchanged('side-effect:fromgeo(geo2,blockmap)', 'arguments-changed',
                          'fromgeo changed the geometry or the block map it was given',
                          args_before, (geo_state(geo2), tuple(sorted(bmap.items()))))
                unchanged('side-effect:fromgeo(geo2,blockmap)', 'grid-changed',
                          'regenerating the grid changed the grid rectgeo was applied to', seen_before, grid_state(grid))
                unchanged('side-effect:pipeline', 'grid-changed', 'the grid in memory is not what it was before it was '
                          'written / reverse-engineered / regenerated', mem_before, grid_state(grid_mem))
                # repeatability: rectgeo on the ORIGINAL in-memory grid gives what it gave before the grid was observed
                second = rectgeo_observation(grid_mem, kw, limit, 'second-call:rectgeo')
                d = first_difference(first, second, 1e-9)
                if d:
                    raise Fail('second-call:rectgeo', 'result-differs', 'rectgeo applied again to the grid in memory, after it '
                               'was written / reverse-engineered / regenerated, gives another result (%s)' % d)
    except Fail as f:
        return (f.site, f.clause, f.what)
    return None


def tolerances(m, dxy, dz, rel):
    t = {}
    t['sp'] = lambda s: 2.5 * rel * s + 1e-12
    t['sp_missing'] = lambda s: 5.0 * rel * s + 1e-12
    t['pos'] = 1.5 * dxy
    # the orientation can only be read off a line of block centres along direction 1 or 2: the shorter of
    # the two available baselines bounds what the rounding of the centres may do to the angle
    base = [b for b in (m.X[-1] - 0.5 * (m.dx[0] + m.dx[-1]), m.Y[-1] - 0.5 * (m.dy[0] + m.dy[-1])) if b > 0]
    L1 = min(base) if base else 0.0
    if L1 > 6.0 * dxy:
        t['ang_rad'] = 1.5 * math.atan2(2.9 * dxy, L1 - 2.9 * dxy)
    else:
        t['ang_rad'] = math.pi
    t['ang'] = math.degrees(t['ang_rad']) + 1e-9
    t['layer_z'] = 1.5 * dz + 3.0 * rel * m.Z[-1]
    t['corner'] = 2.0 * dxy + t['ang_rad'] * m.extent() + 3.0 * rel * (m.X[-1] + m.Y[-1])
    t['surf'] = t['layer_z'] + 1.5 * dz + 4.0 * rel * max(m.dz)
    return t


def check_geometry(geo2, m, case, dxy, dz, rel):
    t = tolerances(m, dxy, dz, rel)
    site = 'rectgeo'
    if geo2.atmosphere_type != case['atm']:
        raise Fail(site, 'atmosphere', 'atmosphere type %r, generating geometry has %r' % (geo2.atmosphere_type, case['atm']))
    if geo2.convention != case['cr']:
        raise Fail(site, 'convention', 'convention %r, asked for %r' % (geo2.convention, case['cr']))
    lays = geo2.layerlist[1:]
    thick = [float(l.top - l.bottom) for l in lays]
    if len(thick) != m.nz or any(not abs(a - b) <= t['sp'](b) for a, b in zip(thick, m.dz)):
        raise Fail(site, 'spacing3', 'layer thicknesses %r, generating geometry has %r' % (thick, m.dz))
    if len(geo2.columnlist) != m.nx * m.ny:
        raise Fail(site, 'column-count', '%d columns, generating geometry has %d' % (len(geo2.columnlist), m.nx * m.ny))
    # position: the origin block (bottom layer, first along directions 1 and 2)
    c0 = m.centre(0, 0)
    best = min(max(abs(float(c.centre[0]) - c0[0]), abs(float(c.centre[1]) - c0[1]))
               if c.centre[0] == c.centre[0] and c.centre[1] == c.centre[1] else float('inf')
               for c in geo2.columnlist)
    if not best <= t['pos']:
        raise Fail(site, 'position', 'no column centre within %.3g of the origin block position %r (nearest %.6g away; '
                   'first column centre %r)' % (t['pos'], c0, best, [float(v) for v in geo2.columnlist[0].centre]))
    zb = float(geo2.layerlist[-1].bottom)
    if not abs(zb - m.layer_bottom(m.nz - 1)) <= t['layer_z']:
        raise Fail(site, 'position-z', 'bottom of the geometry at %r, generating geometry %r' % (zb, m.layer_bottom(m.nz - 1)))
    pa = float(geo2.permeability_angle)
    if not rm.angle_diff(pa, m.perm_angle) <= t['ang']:
        raise Fail(site, 'orientation', 'permeability angle %r, generating geometry %r' % (pa, m.perm_angle))
    # spacings along the geometry's OWN permeability directions
    a = math.radians(pa)
    e1, e2 = (math.cos(a), math.sin(a)), (-math.sin(a), math.cos(a))
    for lab, e, want, missing in (('spacing1', e1, m.dx, m.nx == 1), ('spacing2', e2, m.dy, m.ny == 1)):
        proj = sorted(float(n.pos[0]) * e[0] + float(n.pos[1]) * e[1] for n in geo2.nodelist)
        lines = []
        for p in proj:
            if not lines or p - lines[-1] > 1e-3 * min(want):
                lines.append(p)
        got = [lines[k + 1] - lines[k] for k in range(len(lines) - 1)]
        tol = t['sp_missing'] if missing else t['sp']
        if len(got) != len(want) or any(not abs(g - w) <= tol(w) for g, w in zip(got, want)):
            raise Fail(site, lab, 'block sizes %r along its permeability direction, generating geometry has %r' % (got, want))
    # every column rectangle and its surface
    taken = set()
    for col in geo2.columnlist:
        ij = m.locate((float(col.centre[0]), float(col.centre[1])))
        if ij is None or ij in taken:
            raise Fail(site, 'columns', 'column %r at %r is outside the generating geometry or doubles another'
                       % (col.name, [float(v) for v in col.centre]))
        taken.add(ij)
        want = m.corners(*ij)
        got = [(float(n.pos[0]), float(n.pos[1])) for n in col.node]
        if not same_points(got, want, t['corner']):
            raise Fail(site, 'columns', 'column %r corners %r, generating geometry has %r' % (col.name, got, want))
    for col in geo2.columnlist:
        ij = m.locate((float(col.centre[0]), float(col.centre[1])))
        s = float(col.surface)
        if not abs(s - m.surface(*ij)) <= t['surf']:
            raise Fail(site, 'surface', 'column at (%d,%d) has surface %r, generating geometry %r (code %r)'
                       % (ij[0], ij[1], s, m.surface(*ij), m.surf[ij[1] * m.nx + ij[0]]))


def check_grid(grid2, orig_blocks, orig_cons, colof, m, dxy, dz, rel):
    t = tolerances(m, dxy, dz, rel)
    site = 'fromgeo(geo2,blockmap)'
    blocks, cons = grid_summary(grid2)
    if set(blocks) != set(orig_blocks):
        raise Fail(site, 'block-names', 'blocks only in the original grid %r, only in the regenerated grid %r'
                   % (sorted(set(orig_blocks) - set(blocks))[:6], sorted(set(blocks) - set(orig_blocks))[:6]))
    htol = t['surf'] + t['layer_z']
    for name in sorted(orig_blocks):
        v, v2 = orig_blocks[name], blocks[name]
        ij = colof.get(name)
        tol = 6.0 * rel * v + (m.area(*ij) * htol if ij else 0.0)
        if not abs(v - v2) <= tol:
            raise Fail(site, 'volume', 'block %r volume %r, original %r' % (name, v2, v))
    if set(cons) != set(orig_cons):
        raise Fail(site, 'connection-names', 'connections only in the original grid %r, only in the regenerated grid %r'
                   % (sorted(tuple(sorted(c)) for c in set(orig_cons) - set(cons))[:6],
                      sorted(tuple(sorted(c)) for c in set(cons) - set(orig_cons))[:6]))
    side = max(m.dx + m.dy)
    for key in sorted(orig_cons, key=lambda k: tuple(sorted(k))):
        d, dist, area = orig_cons[key]
        d2, dist2, area2 = cons[key]
        names = tuple(sorted(key))
        if d != d2:
            raise Fail(site, 'connection-direction', 'connection %r direction %r, original %r' % (names, d2, d))
        for n in names:
            tol = 3.0 * rel * dist[n] + (htol if d == 3 else 0.0) + 1e-12
            if not abs(dist[n] - dist2[n]) <= tol:
                raise Fail(site, 'connection-distance', 'connection %r distance of %r is %r, original %r'
                           % (names, n, dist2[n], dist[n]))
        tol = 6.0 * rel * area + (side * (1 + rel) * htol if d != 3 else 0.0)
        if not abs(area - area2) <= tol:
            raise Fail(site, 'connection-area', 'connection %r area %r, original %r' % (names, area2, area))


# ---------------------------------------------------------------------------------------------- signatures

def shape_class(case):
    if case['nx'] * case['ny'] >= 100 and (case['nx'], case['ny'], case['nz']) != BIG:
        return 'columns>=100'
    if case['nx'] == 1:
        return 'nx=1'
    if case['ny'] == 1:
        return 'ny=1'
    return 'nx,ny>=2'


REVERT = [('rep', lambda c, b: with_(c, rep=False), lambda c: 'observed-twice' if c.get('rep') else None),
          ('hist', lambda c, b: with_(c, hist=None),
           lambda c: 'history=converted-before(%s,%s)' % tuple(c['hist']) if c.get('hist') else None),
          ('file', lambda c, b: with_(c, file=False),
           lambda c: ('file' if c['file'] is True else 'file=%s' % c['file']) if c['file'] else None),
          ('bname', lambda c, b: with_(c, bname='bdy 1'),
           lambda c: 'boundary-name-order' if c['bnd'] and c.get('bname', 'bdy 1') != 'bdy 1' else None),
          ('bnd', lambda c, b: with_(c, bnd=None), lambda c: ('bnd=' + '/'.join(c['bnd'])) if c['bnd'] else None),

          ('route', lambda c, b: with_(c, route='translate'),
           lambda c: 'position-by-origin-argument' if c.get('route', 'translate') == 'origin' else None),
          ('snap', lambda c, b: with_(c, snap='default'),
           lambda c: 'layer_snap=' + c['snap'] if c.get('snap', 'default') != 'default' else None),
          ('rmi', lambda c, b: with_(c, rmi=False), lambda c: 'remove_inactive' if c['rmi'] else None),
          ('avol', lambda c, b: with_(c, avol='d'),
           lambda c: 'atmosphere-volume=' + {'z': '0', 'h': '1e50'}[c['avol']] if c.get('avol', 'd') != 'd' else None),
          ('ob', lambda c, b: with_(c, ob='auto'), lambda c: 'origin_block-given' if c['ob'] == 'name' else None),
          ('conv', lambda c, b: with_(c, cs=0, cr=0),
           lambda c: ('conv-differs' if c['cs'] != c['cr'] else 'conv=%d' % c['cs']) if (c['cs'], c['cr']) != (0, 0) else None),
          ('surf', lambda c, b: with_(c, surf=b['surf']), lambda c: 'surface' if any(s != TOP for s in c['surf']) else None),
          ('angle', lambda c, b: with_(c, angle=0), lambda c: 'angle=%r' % c['angle'] if c['angle'] != 0 else None),
          ('shift', lambda c, b: with_(c, shift=0), lambda c: {1: 'shifted', 2: 'above-z0', 3: 'origin~1e4', 4: 'origin~1e6'}[c['shift']] if c['shift'] else None),
          ('sp', lambda c, b: with_(c, sp=['u', 'u', 'u']),
           lambda c: 'spacing=' + ''.join(c['sp']) if c['sp'] != ['u', 'u', 'u'] else None)]


def classify(case, failure, memo=None):
    """Input class = shape class + the deviations from the base that the failure needs."""
    site, clause = failure[0], failure[1]
    base = base_case(case['nx'], case['ny'], case['nz'], case['atm'])

    def fails_same(c):
        c = normalise(c)
        if c is None:
            return False
        key = case_key(c)
        if memo is not None and key in memo:
            r = memo[key]
        else:
            r = evaluate(c)
            if memo is not None and len(memo) < 20000:
                memo[key] = r
        return r is not None and (r[0], r[1]) == (site, clause)
    cur = case
    if case_key(case) != case_key(base) and fails_same(base):
        cur = base
    else:
        for name, revert, label in REVERT:
            if label(cur) is None:
                continue
            cand = revert(cur, base)
            if fails_same(cand):
                cur = normalise(cand)
    labels = [shape_class(case)]
    if not all(fails_same(with_(cur, atm=a)) for a in (0, 1, 2) if a != cur['atm']):
        labels.append('atm=%d' % cur['atm'])
    for name, _, lab in REVERT:
        if lab(cur) is None:
            continue
        if name == 'bnd':
            # which attributes of the boundary block does the failure need?
            attach, vol, cen = cur['bnd']
            text = 'bnd=' + attach
            if not fails_same(with_(cur, bnd=[attach, 'huge' if vol == 'zero' else 'zero', cen])):
                text += '/' + vol
            if not fails_same(with_(cur, bnd=[attach, vol, 'c' if cen == 'n' else 'n'])):
                text += '/' + ('nocentre' if cen == 'n' else 'centre')
            labels.append(text)
        else:
            labels.append(lab(cur))
    return ','.join(labels)


def signature(case, failure, memo=None):
    return 'C18|%s|%s|%s' % (failure[0], failure[1], classify(case, failure, memo))


# ---------------------------------------------------------------------------------------------- driver

def run_unit(unit, tier, rec):
    memo = {}
    n = 0
    for case in unit_cases(unit, tier):
        key = case_key(case)
        r = memo.get(key, 0)
        if r == 0:
            r = evaluate(case)
        n += 1
        rec.case(key, nontrivial=True, outcome='holds' if r is None else r[0] + ':' + r[1])
        if r is not None:
            rec.violation(signature(case, r, memo), r[2], case)
        if n % 997 == 1:
            rec.sample({k: case[k] for k in ('nx', 'ny', 'nz', 'sp', 'shift', 'angle', 'atm', 'surf', 'cs', 'cr', 'bnd',
                                             'ob', 'rmi', 'file', 'avol')})  # noqa
    rec.count('cases_%s' % unit[0], n)
    rec.count('units', 1)


def replay(case):
    r = evaluate(case)
    if r is None:
        return []
    return [(signature(case, r, {}), r[2])]
