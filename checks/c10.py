"""C10 - a mulgrid geometry stays internally consistent under any sequence of edits.

E1: explicit-state breadth-first search over sequences of the real edit methods on real mulgrid objects
(mc/engine_seq.bfs).  After every transition the whole state invariant of the property statement is
evaluated by a reference written here and in ref/geomodel.py (plain attribute reads, vertex identity,
exact Fraction geometry) - never by the library's own check()/missing_connections/is_against.

Soundness device (DESIGN 3.2): refine() and friends name new nodes/columns in the iteration order of
sets of objects hashed by address, so which column gets which name differs from run to run.  Canonical
forms are therefore assignment-free (columns identified by their sorted vertex coordinates; the *set* of
names in use, which is run-independent, is kept) and every operation argument is a canonical index, so a
recorded history replays to the same canonical state in any process.
"""
import contextlib
import copy
import io
import itertools
import os
import sys

from mc import core
from mc import engine_seq
from ref import geomodel as G

ID = 'C10'
LEVEL = 'model_checking'
ENGINE = 'E1'
EXHAUSTIVE = True
RULE = ('breadth-first over call sequences of the edit alphabet (refine x 4 bisect modes, split_column, '
        'decompose_columns, reduce, rename_column/-layer single+list, delete_column, add/delete node, column, '
        'connection, layer, well, refine_layers x factor 2|3, both snaps, fit_surface, translate, rotate, '
        'copy_layers_from x 3 layer sources (top at, above, below the old ground), a vertical translate of that '
        'source geometry, write+read) with column/node/layer arguments as canonical indices and the subset rule '
        'given in bounds; a state is distinct by its name-assignment-free canonical form (node coordinates, column '
        'vertex sequences/surface/centre/layer count, unordered connection pairs, layers, wells, harness-given names, '
        'mesh-validity flag, and which read-only operations ran on the object after how many edits); every '
        'transition is validated against the reference invariant.  Observed histories: on the +obs seeds every '
        'sequence of two topology edits with one read-only operation (check(), get_missing_connections(), the other '
        'look-ups) before the first or between the two')
ASSUMPTIONS = [
    'reference invariant computed from attribute reads and ref/geomodel.py (vertex identity, exact Fraction areas); '
    'col.area compared to the exact area at 1e-9 relative',
    'enabledness = documented contract: refine/split_column/decompose_columns/fit_surface only on a mesh that the '
    'reference finds valid (no missing/extra connection, no orphan node) and that was not touched by a primitive '
    'since; refine only on regions of 3- and 4-sided columns (documented requirement) - neighbours may have more '
    'sides: refine() then either does not touch them or refuses, and a refusal must leave a valid mesh',
    'the geometry that copy_layers_from took its layers from belongs to the state: after every later operation its '
    'own invariant is evaluated and its canonical form must be what it was (an operation on one geometry must not '
    'change another); translating that source must leave the copying geometry unchanged',
    'arguments belong to the caller: every call made with a plain-data collection (lists of names, shift vectors, '
    'the fit_surface data array) is compared with a deep copy of its arguments taken before; and the calls that take '
    'a collection are repeated, with the very same argument objects, on a deep copy of the geometry taken before '
    'the call (the list of names reused on the re-read file / on a model with the same names): the copy must end in '
    'the same canonical state and the first geometry must not change (WAVE3 rule 2: judged by the effect)',
    'selections with a repeated member in another order (reversed, first member named again) are offered for '
    'refine, reduce, decompose_columns, refine_layers and both snaps; for the first four a deep copy of the geometry '
    'gets the selection without the repeat and must end in the same canonical state (a repeated member selects the '
    'same set); for the snaps, which are not idempotent, only the invariant is judged',
    'after write+read the numbers of nodes, columns, connections, layers and wells must be those written (objects '
    'whose names collide in the file are otherwise dropped silently), besides the invariant on the object read',
    'excluded (DESIGN 4.2): mesh-validity clauses after delete_column / delete_node / add_node / add_column / '
    'add_connection / delete_connection (primitives promise no valid mesh); they are checked again after reduce()',
    'excluded: delete_node of a node still used by a column; add_connection between columns that share no side; '
    'add_* with a name already present; deleting the atmosphere (first) layer; renaming onto a name that is still '
    'in use after the renaming - the methods make no statement about these.  Simultaneous renamings whose new names '
    'are old names of the same list (swap, cycle, identity entry) ARE in the alphabet: the result is a set of '
    'distinct names, and each renamed object must carry the name the map gives it',
    'refine() of a region that holds a column with more than four sides (documented as unsupported; alone or with '
    'one other column, both orders, 4 modes): it may refuse by a message or by an exception, but the geometry must '
    'be canonically unchanged and keep the invariant',
    'excluded: delete_layer that would leave a column with no layer below its surface (a column without blocks)',
    'excluded: reduce() to a set of columns that is not edge-connected (quantifier: connected geometries)',
    'a finding that concerns only derived structures (node.column, col.connection, col.neighbour, connection dict '
    'keys, col.area, num_layers, the two name lists; also orphan nodes left by an operation, which are dropped) is reported and the search continues from the state with all '
    'derived structures rebuilt from the primary ones - for the primitives this is the documented remedy '
    '(setup_block_name_index, setup_block_connection_name_index, set_column_num_layers, identify_neighbours), '
    'DESIGN 3.2; stale name lists after a primitive have one signature per primitive (F15); every other finding '
    'ends its branch (error states are not expanded)',
    'read-only operations (check(), get_missing_connections(), the other look-ups) are in the alphabet of the +obs '
    'seeds for what they may leave behind on the objects: after one the invariant must hold and the canonical form '
    'must be unchanged; what they answer or raise is not judged (raises are counted as query-raised).  A state that '
    'was observed is distinct from the same geometry never observed (the observation and the number of edits before '
    'it are part of the canonical state; a geometry read from a file is a new object, nothing observed)',
    'check(fix=True) (observed histories only) is offered on a mesh the reference finds valid and promises a valid mesh',
    'canonical coordinates rounded to 1e-7, fitted surfaces to 1e-6 (fit_surface assembles its matrix in set order)',
]
BOUNDS = {
    'quick': {'builders': 'rectangular nx,ny in 1..3 x convention 0..3 x atmosphere 0..2; from_gmsh x 2 files; from_amesh; '
                          'the 7 shipped geometry files (depth 0, invariant only)',
              'seeds': ['rect2x2', 'rect3x2', 'mixed6', 'g7', 'rect2x2L (left-justified names)',
                        'rect2x1n (atmosphere layer named like a subsurface layer, as g4.dat)',
                        'rect2x2Lw0 / rect2x2Lw3 (left-justified, the first / the last column renamed to a name that '
                        'exactly fills its field)',
                        'conv1rt / conv2rt (naming conventions 1 and 2: one column refined, written and read back)',
                        'hang7r0..6 (a 7-node column with three straight mid-side nodes among six quadrilaterals, '
                        'node list started at each of its 7 nodes)',
                        'rect2x2+obs / mixed6+obs (the same geometries, observed-history alphabet)'],
              'observed_histories': 'seeds rect2x2+obs, mixed6+obs: every sequence q e1 e2 and e1 q e2 with q one of the '
                                    'read-only operations check() | get_missing_connections() | the other look-ups '
                                    '(extra_connections, orphans, bad_columns, is_against and connects for every '
                                    'ordered pair, neighbour lists, boundary nodes/polygon/columns, neighbour groups, '
                                    'bounds, kd-tree, quadtree, column_containing_point) and e1, e2 from the topology '
                                    'alphabet (refine, split_column, decompose_columns, reduce, check(fix=True), '
                                    'delete_column, add_column, add/delete node, add/delete connection, write+read; '
                                    'check(fix=True) only where the reference finds the mesh valid); '
                                    'e1: singles and the full set, every candidate; e2: first/last single and the '
                                    'full set, first/last candidate, reduced alphabet',
              'depth': {'rect2x2': 2, 'rect3x2': 2, 'mixed6': 2, 'g7': 1, 'rect2x2L': 1, 'rect2x1n': 2, 'hang7r0': 2,
                        'rect2x2+obs': 3, 'mixed6+obs': 3,
                        'rect2x2Lw0': 2, 'rect2x2Lw3': 1, 'conv1rt': 1, 'conv2rt': 2, 'hang7r1': 1, 'hang7r2': 1, 'hang7r3': 1, 'hang7r4': 1, 'hang7r5': 1, 'hang7r6': 1},
              'subsets_depth0': 'every non-empty column subset (<= 6 columns); rect3x2: singles, pairs and the full set',
              'subsets_deeper': 'singles and the full set; single-object arguments (split_column quad, delete_column, '
                                'rename, connection, layer): the first and the last canonical candidate'},
    'thorough': {'builders': 'as quick',
                 'seeds': ['rect2x2', 'rect3x2', 'mixed6', 'g7', 'rect2x2L', 'rect2x1n', 'hang7r0..6', 'rect2x2Lw0', 'rect2x2Lw3', 'conv1rt', 'conv2rt',
                           'rect2x2+obs', 'mixed6+obs', 'rect3x2+obs', 'hang7r0+obs'],
                 'observed_histories': 'as quick, seeds rect2x2+obs, mixed6+obs, rect3x2+obs, hang7r0+obs; e1: every '
                                       'subset while <= 6 columns, otherwise singles, pairs of neighbours and the '
                                       'full set',
                 'depth': {'rect2x2': 3, 'rect3x2': 2, 'mixed6': 3, 'g7': 1, 'rect2x2L': 2, 'rect2x1n': 3, 'hang7r0': 2,
                           'rect2x2+obs': 3, 'mixed6+obs': 3, 'rect3x2+obs': 3, 'hang7r0+obs': 3,
                           'rect2x2Lw0': 2, 'rect2x2Lw3': 2, 'conv1rt': 2, 'conv2rt': 2, 'hang7r1': 2, 'hang7r2': 2, 'hang7r3': 2, 'hang7r4': 2, 'hang7r5': 2, 'hang7r6': 2},
                 'subsets_depth0': 'every non-empty column subset (<= 6 columns); g7: singles on a stride, one pair, full set',
                 'subsets_depth1': 'all subsets while <= 6 columns, otherwise singles, pairs of neighbours and the full set',
                 'subsets_depth2': 'singles (first/last) and the full set, reduced alphabet'},
}
TECHNIQUE = ('explicit-state model checking: bounded breadth-first search over call sequences on the real mulgrid '
             'objects with canonical-state de-duplication, every transition checked against a reference invariant')
LEVEL_TEXT = ('All sequences of the stated edit alphabet up to the stated depth are executed on real mulgrid objects '
              'from several seed geometries; after each call every clause of the property (dict/list agreement, '
              'node->column, column->connection, neighbour symmetry, connection edge = shared side, orientation and '
              'area, layer count, block and connection name lists, and mesh validity where promised) is recomputed '
              'independently and compared; states are merged only when their canonical forms coincide.')
LEVEL_NOTE = ('Bounded: depth and subset rule per seed as in bounds; not closed (refinement makes the space infinite). '
              'Trusted: ref/geomodel.py and the reference invariant in this file.  Name lists are compared to the '
              "library's own setup_block_*_index recomputed on the spot, the held lists then put back (a fresh "
              'recomputation, as the statement says).')

R_COORD = 7
TIME_OP = 120


# ----------------------------------------------------------------------------------- helpers

def quiet():
    return contextlib.redirect_stdout(io.StringIO())


def rc(v):
    v = float(v)
    if v != v:
        return 'nan'        # (compares equal to itself, unlike the float)
    return round(v, R_COORD) + 0.0


def npos(n):
    return (rc(n.pos[0]), rc(n.pos[1]))


def col_key(col):
    return tuple(sorted(npos(n) for n in col.node))


def canon_cols(geo):
    return sorted(geo.columnlist, key=lambda c: (col_key(c), c.name))


def canon_nodes(geo):
    return sorted(geo.nodelist, key=lambda n: (npos(n), n.name))


def mesh_of(geo):
    """Reference mesh keyed by object identity (id) of nodes and columns in the lists."""
    nodes = {}
    for n in geo.nodelist:
        nodes[id(n)] = (n.pos[0], n.pos[1])
    cols = {}
    for c in geo.columnlist:
        for n in c.node:
            if id(n) not in nodes:
                nodes[id(n)] = (n.pos[0], n.pos[1])
        cols[id(c)] = [id(n) for n in c.node]
    return G.Mesh(nodes, cols)


# ----------------------------------------------------------------------------------- the invariant

def name_lists(geo):
    return (list(geo.block_name_list), dict(geo.block_name_index),
            list(geo.block_connection_name_list), dict(geo.block_connection_name_index))


def fresh_name_lists(geo):
    """What setup_block_name_index / setup_block_connection_name_index give now.  They write nothing but the
    four name attributes, so they are run on the object itself and the attributes put back (same result as on
    a deep copy, without copying a thousand-column geometry)."""
    held = (geo.block_name_list, geo.block_name_index, geo.block_connection_name_list,
            geo.block_connection_name_index)
    try:
        with quiet():
            geo.setup_block_name_index()
            geo.setup_block_connection_name_index()
        return name_lists(geo)
    finally:
        (geo.block_name_list, geo.block_name_index, geo.block_connection_name_list,
         geo.block_connection_name_index) = held


def invariant(geo, promise_mesh=False, coords_too=False):
    """Every clause of the statement.  Returns a list of (clause, text)."""
    out = []

    def bad(clause, text):
        out.append((clause, text))

    # --- by-name lookups and ordered lists agree
    for kind, lst, dct in (('node', geo.nodelist, geo.node), ('column', geo.columnlist, geo.column),
                           ('layer', geo.layerlist, geo.layer), ('well', geo.welllist, geo.well)):
        names = [x.name for x in lst]
        if len(set(names)) != len(names):
            bad(kind + '-list-duplicate-name', '%s list holds a name twice: %r' % (kind, sorted(names)))
        elif set(names) != set(dct.keys()):
            bad(kind + '-dict-keys', '%s dict keys %r differ from the names in the list %r'
                % (kind, sorted(dct.keys()), sorted(names)))
        elif any(dct[x.name] is not x for x in lst):
            bad(kind + '-dict-object', '%s dict maps a name to an object that is not the list element' % kind)
    cnames = [(c.column[0].name, c.column[1].name) for c in geo.connectionlist]
    if len(set(cnames)) != len(cnames):
        bad('connection-list-duplicate', 'connection list holds a column pair twice')
    elif set(cnames) != set(geo.connection.keys()):
        stale = sorted(set(geo.connection.keys()) - set(cnames))
        bad('connection-dict-keys', 'connection dict keys are not the current column-name pairs of the connections '
            '(%d stale keys, e.g. %r)' % (len(stale), stale[:2]))
    elif any(geo.connection[k] is not c for k, c in zip(cnames, geo.connectionlist)):
        bad('connection-dict-object', 'connection dict maps a pair to an object that is not the list element')

    nodeids = set(id(n) for n in geo.nodelist)
    colids = set(id(c) for c in geo.columnlist)
    conids = set(id(c) for c in geo.connectionlist)

    # --- each node knows exactly the columns that use it
    users = dict((id(n), set()) for n in geo.nodelist)
    foreign = False
    for c in geo.columnlist:
        for n in c.node:
            if id(n) not in nodeids:
                foreign = True
            else:
                users[id(n)].add(id(c))
    if foreign:
        bad('column-node-not-in-geometry', 'a column uses a node object that is not in the node list')
    for n in geo.nodelist:
        have = set(id(c) for c in n.column)
        if have != users[id(n)]:
            extra = len(have - users[id(n)])
            miss = len(users[id(n)] - have)
            bad('node.column', 'a node lists %d column(s) that do not use it and omits %d that do' % (extra, miss))
            break

    # --- each column knows exactly its connections and neighbours
    mention = dict((id(c), set()) for c in geo.columnlist)
    partner = dict((id(c), set()) for c in geo.columnlist)
    for con in geo.connectionlist:
        a, b = con.column
        if id(a) not in colids or id(b) not in colids:
            bad('connection-column-not-in-geometry', 'a connection joins a column that is not in the column list')
            continue
        mention[id(a)].add(id(con))
        mention[id(b)].add(id(con))
        partner[id(a)].add(id(b))
        partner[id(b)].add(id(a))
    for c in geo.columnlist:
        have = set(id(x) for x in c.connection)
        if have != mention[id(c)]:
            bad('col.connection', 'a column lists %d connection(s) not mentioning it / not in the geometry and omits %d'
                % (len(have - mention[id(c)]), len(mention[id(c)] - have)))
            break
    for c in geo.columnlist:
        have = set(id(x) for x in c.neighbour)
        if have != partner[id(c)]:
            bad('col.neighbour', 'a column lists %d neighbour(s) it has no connection with and omits %d partner(s)'
                % (len(have - partner[id(c)]), len(partner[id(c)] - have)))
            break

    # --- each connection's two nodes are the edge its two columns share (vertex identity)
    for con in geo.connectionlist:
        a, b = con.column
        shared = G.shared_edges_by_identity([id(n) for n in a.node], [id(n) for n in b.node])
        nd = con.node
        if not shared:
            continue            # an extra connection: reported below where a valid mesh is promised
        if nd is None or len(nd) != 2 or frozenset(id(n) for n in nd) not in shared:
            bad('connection.node', "a connection's node pair is not a side shared by its two columns")
            break

    # --- every column counter-clockwise with positive area; col.area is that area; layer count matches surface
    m = mesh_of(geo)
    for c in geo.columnlist:
        pg = m.polygon(id(c))
        o = G.orientation(pg)
        if o <= 0:
            bad('orientation', 'a %d-sided column is %s' % (len(pg), 'clockwise' if o < 0 else 'degenerate'))
            break
    for c in geo.columnlist:
        ra = float(m.area(id(c)))
        if abs(float(c.area) - ra) > 1e-9 * max(1.0, abs(ra)):
            bad('col.area', 'col.area = %r but the %d-gon of its nodes has area %r' % (float(c.area), len(c.node), ra))
            break
    for c in geo.columnlist:
        if c.surface is None:
            continue
        want = len([lay for lay in geo.layerlist[1:] if lay.bottom < c.surface])
        if c.num_layers != want:
            bad('num_layers', 'col.num_layers = %r but %d layers lie below its surface' % (c.num_layers, want))
            break

    # --- block and connection name lists are what a fresh recomputation gives
    try:
        have = name_lists(geo)
        want = fresh_name_lists(geo)
        if have[0] != want[0] or have[1] != want[1]:
            bad('block_name_list', 'block_name_list/index differ from a fresh setup_block_name_index() '
                '(%d names held, %d fresh)' % (len(have[0]), len(want[0])))
        if have[2] != want[2] or have[3] != want[3]:
            bad('block_connection_name_list', 'block_connection_name_list/index differ from a fresh '
                'setup_block_connection_name_index() (%d held, %d fresh)' % (len(have[2]), len(want[2])))
    except core.CaseTimeout:
        raise
    except Exception as e:
        bad('name-list-recomputation-raises', 'recomputing the name lists raised %s' % type(e).__name__)

    # --- operations that promise a valid mesh
    if promise_mesh:
        out.extend(mesh_clauses(geo, m, coords_too))
    return out


def mesh_clauses(geo, m=None, coords_too=False):
    out = []
    if m is None:
        m = mesh_of(geo)
    adj = m.adjacent_pairs()
    connected = set()
    extra = 0
    for con in geo.connectionlist:
        k = frozenset((id(con.column[0]), id(con.column[1])))
        connected.add(k)
        if k not in adj:
            extra += 1
    missing = [k for k in adj if k not in connected]
    if missing:
        out.append(('missing-connection', '%d pair(s) of columns share a side but have no connection' % len(missing)))
    if extra:
        out.append(('extra-connection', '%d connection(s) join columns that share no side' % extra))
    orphans = m.orphan_nodes()
    if orphans:
        out.append(('orphan-node', '%d node(s) belong to no column' % len(orphans)))
    if coords_too:
        adjc = m.adjacent_pairs_by_coords()
        if any(k not in adj for k in adjc):
            out.append(('missing-connection-by-coordinates',
                        'columns have a common side by coordinates but through different node objects'))
    return out


def mesh_valid(geo):
    return not mesh_clauses(geo, None, True)


def edge_connected(geo, cols):
    ids = set(id(c) for c in cols)
    if not ids:
        return False
    m = mesh_of(geo)
    adj = {}
    for k in m.adjacent_pairs():
        a, b = tuple(k)
        if a in ids and b in ids:
            adj.setdefault(a, set()).add(b)
            adj.setdefault(b, set()).add(a)
    start = next(iter(sorted(ids)))
    seen, todo = set([start]), [start]
    while todo:
        x = todo.pop()
        for y in adj.get(x, ()):
            if y not in seen:
                seen.add(y)
                todo.append(y)
    return seen == ids


# ----------------------------------------------------------------------------------- canonical form

def reserved(name):
    """Names handed out by this harness (rename targets 'z..', added columns 'v..', added nodes 'x..').  They are
    chosen deterministically; the names the library invents are assigned in set order and never enter the
    canonical form."""
    return name if (len(name.strip()) == len(name) and name[:1] in 'zvx') else ''


def canon_geo(geo):
    cols = canon_cols(geo)
    cidx = dict((id(c), i) for i, c in enumerate(cols))
    ccan = []
    for c in cols:
        ccan.append((tuple(npos(n) for n in c.node),
                     None if c.surface is None else round(float(c.surface), 6) + 0.0,
                     None if c.centre is None else (rc(c.centre[0]), rc(c.centre[1])),
                     int(bool(c.centre_specified)), c.num_layers, reserved(c.name)))
    cons = sorted(tuple(sorted((cidx.get(id(c.column[0]), -1), cidx.get(id(c.column[1]), -1))))
                  for c in geo.connectionlist)
    return (tuple((npos(n), reserved(n.name)) for n in canon_nodes(geo)), tuple(ccan), tuple(cons),
            tuple((l.name, rc(l.bottom), rc(l.centre), rc(l.top)) for l in geo.layerlist),
            tuple((w.name, tuple(tuple(rc(x) for x in p) for p in w.pos)) for w in geo.welllist),
            geo.convention, geo.atmosphere_type)


def canon(st):
    """The state = the geometry under edit, its mesh-validity flag, and the other geometry it took its layers
    from (an operation on one geometry must not change another, so the source belongs to the state)."""
    c = (canon_geo(st['geo']), st['valid'], tuple(canon_geo(g) for g in st.get('src', ())))
    # read-only operations leave the canonical geometry as it is but may leave per-object state behind (lazily
    # built look-ups); which of them ran on this very object, and after how many edits, belongs to the state -
    # otherwise the search would merge 'observed' with 'never observed' and never expand the former
    return c + (tuple(tuple(x) for x in st['obs']),) if st.get('obs') else c


# ----------------------------------------------------------------------------------- seeds

def _finish(geo):
    geo.identify_neighbours()
    geo.setup_block_name_index()
    geo.setup_block_connection_name_index()
    return geo


def seed_rect(nx, ny, atmos, lowered, well=False, justify='r', atm_like_layer=False):
    import mulgrids
    with quiet():
        geo = mulgrids.mulgrid().rectangular([10.] * nx, [10.] * ny, [10.] * 2, atmos_type=atmos, justify=justify)
        if atm_like_layer:
            # layer names as in the shipped g4.dat: the atmosphere layer carries a name (' 1') that the
            # layer-name generator also hands out to subsurface layers
            geo.rename_layer([' 2', ' 1', ' 0'], [' 3', ' 2', ' 1'])
        for idx, z in lowered:
            col = geo.columnlist[idx]
            col.surface = z
            geo.set_column_num_layers(col)
        if well:
            import numpy as np
            geo.add_well(mulgrids.well('w  1', [np.array([5., 5., 0.]), np.array([6., 5., -15.])]))
        _finish(geo)
    return geo


MIXED_NODES = [('a', 0, 0), ('b', 10, 0), ('c', 20, 0), ('d', 30, 0), ('e', 0, 10), ('f', 10, 10), ('g', 20, 10),
               ('h', 30, 10), ('i', 0, 20), ('k', 20, 20), ('m', 35, 18), ('n', 27, 26)]
MIXED_COLS = [('q1', 'abfe'), ('q2', 'bcgf'), ('t1', 'cdg'), ('t2', 'dhg'), ('p1', 'efgki'), ('p2', 'ghmnk')]


def seed_mixed():
    """Two quadrilaterals, two triangles, a pentagon with one straight angle, a convex pentagon."""
    import mulgrids
    import numpy as np
    with quiet():
        geo = mulgrids.mulgrid(convention=0, atmos_type=2)
        for name, x, y in MIXED_NODES:
            geo.add_node(mulgrids.node(name.rjust(3), np.array([float(x), float(y)])))
        for name, ns in MIXED_COLS:
            geo.add_column(mulgrids.column(name.rjust(3), [geo.node[c.rjust(3)] for c in ns]))
        m = mesh_of(geo)
        byid = dict((id(c), c) for c in geo.columnlist)
        pairs = sorted(tuple(sorted((byid[a].name, byid[b].name))) for a, b in (tuple(k) for k in m.adjacent_pairs()))
        for a, b in pairs:
            geo.add_connection(mulgrids.connection([geo.column[a], geo.column[b]]))
        geo.add_layers([10., 10.], 0.)
        geo.set_default_surface()
        col = geo.column[' p1']
        col.surface = -6.
        geo.set_column_num_layers(col)
        _finish(geo)
    return geo


HANG_NODES = [('c0', 20, 0), ('c1', 40, 0), ('mR', 40, 10), ('c2', 40, 20), ('mT', 30, 20), ('c3', 20, 20),
              ('mL', 20, 10), ('l0', 0, 0), ('l1', 0, 10), ('l2', 0, 20), ('r0', 60, 0), ('r1', 60, 10), ('r2', 60, 20),
              ('t0', 20, 40), ('t1', 30, 40), ('t2', 40, 40)]
HANG_RING = ['c0', 'c1', 'mR', 'c2', 'mT', 'c3', 'mL']
HANG_COLS = [('L1', ['l0', 'c0', 'mL', 'l1']), ('L2', ['l1', 'mL', 'c3', 'l2']), ('R1', ['c1', 'r0', 'r1', 'mR']),
             ('R2', ['mR', 'r1', 'r2', 'c2']), ('T1', ['c3', 'mT', 't1', 't0']), ('T2', ['mT', 'c2', 't2', 't1'])]


def seed_hang7(rot):
    """A quadrilateral whose left, right and top neighbours have been refined once and the bottom side lies on the
    boundary: a 7-node column with three straight mid-side nodes (what one-sided refinement leaves), node list
    starting at position 'rot' of the ring; six quadrilateral neighbours."""
    import mulgrids
    import numpy as np
    with quiet():
        geo = mulgrids.mulgrid(convention=0, atmos_type=2)
        nm = {}
        for k, (name, x, y) in enumerate(HANG_NODES):
            nm[name] = geo.node_name_from_number(k + 1)
            geo.add_node(mulgrids.node(nm[name], np.array([float(x), float(y)])))
        ring = HANG_RING[rot:] + HANG_RING[:rot]
        geo.add_column(mulgrids.column(geo.column_name_from_number(1), [geo.node[nm[n]] for n in ring]))
        for k, (cname, ns) in enumerate(HANG_COLS):
            geo.add_column(mulgrids.column(geo.column_name_from_number(k + 2), [geo.node[nm[n]] for n in ns]))
        m = mesh_of(geo)
        byid = dict((id(c), c) for c in geo.columnlist)
        pairs = sorted(tuple(sorted((byid[a].name, byid[b].name))) for a, b in (tuple(k) for k in m.adjacent_pairs()))
        for a, b in pairs:
            geo.add_connection(mulgrids.connection([geo.column[a], geo.column[b]]))
        geo.add_layers([10., 10.], 0.)
        geo.set_default_surface()
        col = geo.columnlist[0]
        col.surface = -6.
        geo.set_column_num_layers(col)
        _finish(geo)
    return geo


def seed_g7():
    import mulgrids
    with quiet():
        geo = mulgrids.mulgrid(os.path.join(core.REPO, 'tests', 'mulgrid', 'g7.dat'))
    return geo


def make_seed(name):
    sys.setrecursionlimit(max(sys.getrecursionlimit(), 20000))
    if name.endswith(OBS):
        st = make_seed(name[:-len(OBS)])
        st['seed'] = name
        st['mode'] = 'obs'
        return st
    if name == 'rect2x2':
        geo = seed_rect(2, 2, 0, [(0, -7.)])
    elif name == 'rect3x2':
        geo = seed_rect(3, 2, 1, [(0, -7.), (4, -13.)], well=True)
    elif name == 'mixed6':
        geo = seed_mixed()
    elif name == 'g7':
        geo = seed_g7()
    elif name == 'rect2x2L':
        geo = seed_rect(2, 2, 2, [(3, -7.)], justify='l')          # left-justified names
    elif name in ('rect2x2Lw0', 'rect2x2Lw3'):
        # left-justified names, one column (the first / the last of the list) carrying a name that exactly fills
        # its field and so says nothing about justification
        geo = seed_rect(2, 2, 2, [(2, -7.)], justify='l')
        with quiet():
            geo.rename_column(geo.columnlist[int(name[-1])].name, 'w01')
    elif name in ('conv1rt', 'conv2rt'):
        # naming convention 1 / 2 (numeric column names, the letters are in the layer part of a block name): one
        # column refined once, written and read back - a geometry as a user meets it in a second session
        import mulgrids
        with quiet():
            geo = mulgrids.mulgrid().rectangular([10.], [10.], [10., 10.], convention=int(name[4]), atmos_type=2)
            geo.refine()
            path = os.path.join(core.scratch(), 'c10seed_%d.dat' % os.getpid())
            geo.write(path)
            geo = mulgrids.mulgrid(path)
            os.remove(path)
            col = geo.columnlist[0]
            col.surface = -7.
            geo.set_column_num_layers(col)
            geo.setup_block_name_index()
            geo.setup_block_connection_name_index()
    elif name == 'rect2x1n':
        geo = seed_rect(2, 1, 0, [(1, -7.)], atm_like_layer=True)
    elif name.startswith('hang7r'):
        geo = seed_hang7(int(name[len('hang7r'):]))
    else:
        raise core.HarnessError('unknown seed %r' % name)
    return {'geo': geo, 'hist': [], 'seed': name, 'valid': True, 'src': [], 'src_canon': []}


OBS = '+obs'          # suffix of the seeds explored with the observed-history alphabet
QUERIES = ('check', 'missing_connections', 'queries')
# the operations that change (or re-derive) the mesh topology: the alphabet of the observed-history units
TOPO = ('refine', 'split_column', 'decompose_columns', 'reduce', 'check_fix', 'delete_column', 'add_column',
        'add_node', 'delete_node', 'add_connection', 'delete_connection', 'roundtrip')


def edits_in(hist):
    return len([op for op in hist if op[0] != 'query'])


def run_queries(geo):
    """Read-only look-ups other than check() and missing_connections: every one is called for what it may leave
    behind on the objects, its answer is not judged here.  Returns the number of look-ups that raised."""
    cols = list(geo.columnlist)
    calls = [lambda: geo.extra_connections, lambda: geo.orphans, lambda: geo.bad_columns, lambda: geo.bad_layers,
             lambda: [a.is_against(b) for a in cols for b in cols if a is not b],
             lambda: [geo.connects(a, b) for a in cols for b in cols if a is not b],
             lambda: [(c.neighbourlist, c.polygon, c.bounding_box, c.num_nodes, c.num_neighbours) for c in cols],
             lambda: [(c.interior_angles, c.angle_ratio, c.side_ratio, c.contains_point(c.centre)) for c in cols],
             lambda: geo.boundary_nodes, lambda: geo.boundary_polygon, lambda: geo.boundary_columns,
             lambda: geo.column_boundary_nodes(cols[:1]), lambda: geo.column_neighbour_groups(cols),
             lambda: geo.nodes_in_columns(cols), lambda: (geo.bounds, geo.area, geo.centre),
             lambda: geo.column_bounds(cols), lambda: geo.node_kdtree, lambda: geo.column_quadtree(),
             lambda: [geo.column_containing_point(c.centre) for c in cols],
             lambda: (geo.num_blocks, geo.num_block_connections, geo.num_connections)]
    raised = 0
    for f in calls:
        try:
            f()
        except (core.CaseTimeout, core.HarnessError):
            raise
        except Exception:
            raised += 1
    return raised


DONORS = {'same': (0., [4., 8., 13.]),       # top at the seeds' ground level
          'high': (12., [6., 6., 10., 12.]),  # top two layers above it
          'low': (-4., [6., 10., 9.])}       # top below it


def layers_donor(which='same'):
    import mulgrids
    top, thick = DONORS[which]
    with quiet():
        return mulgrids.mulgrid().rectangular([10.], [10.], thick, atmos_type=2, origin=[0., 0., top])


# ----------------------------------------------------------------------------------- alphabet

PRIMITIVES = ('add_node', 'delete_node', 'add_column', 'delete_column', 'add_connection', 'delete_connection',
              'add_layer', 'delete_layer', 'add_well', 'delete_well')
BISECT = [False, True, 'x', 'y']


def subsets(n, rule):
    idx = list(range(n))
    if rule == 'all':
        out = []
        for k in range(1, n + 1):
            out.extend(list(s) for s in itertools.combinations(idx, k))
        return out
    if rule == 'singles+pairs+full':
        out = [[i] for i in idx]
        out += [list(s) for s in itertools.combinations(idx, 2)]
        if n > 2:
            out.append(idx)
        return out
    if rule == 'singles+full':
        out = [[i] for i in idx]
        if n > 1:
            out.append(idx)
        return out
    if rule == 'ends+full':
        out = [[0]]
        if n > 1:
            out.append([n - 1])
        if n > 2:
            out.append(idx)
        return out
    raise core.HarnessError('subset rule %r' % rule)


def pick(seq, rule):
    seq = list(seq)
    if rule == 'all' or len(seq) <= 2:
        return seq
    return [seq[0], seq[-1]]


def stride(seq, k):
    seq = list(seq)
    if len(seq) <= k:
        return seq
    step = len(seq) // k
    return [seq[i * step] for i in range(k)]


def plan(seed, tier, depth):
    """(subset rule, candidate rule, reduced alphabet?) for operations applied to a state at this depth."""
    if seed == 'g7':
        return ('g7', 'ends', True)
    if tier == 'quick':
        if depth == 0:
            # (the 6-column seed: singles, pairs and the full set here; every subset in the thorough tier)
            return ('singles+pairs+full' if seed == 'rect3x2' else 'all', 'all', False)
        return ('singles+full', 'ends', False)
    if depth == 0:
        return ('all', 'all', False)
    if depth == 1:
        return ('adaptive', 'all', False)
    return ('ends+full', 'ends', True)


def obs_plan(tier, nedits):
    """(subset rule, candidate rule, reduced alphabet?) for the edit number 'nedits' of an observed history."""
    if nedits == 0:
        return ('singles+full', 'all', False) if tier == 'quick' else ('adaptive', 'all', False)
    return ('ends+full', 'ends', True)


def ops_of_factory(tier):
    def ops_of(st, depth):
        if st.get('mode') != 'obs':
            return gen(st, depth, plan(st['seed'], tier, depth))
        # observed histories: two topology edits with one read-only operation before the first or between the
        # two (q e1 e2, e1 q e2); the alphabet of an edit depends on how many edits went before, not on where
        # the read-only operation stands
        hist = st['hist']
        ne = edits_in(hist)
        queried = ne < len(hist)
        if ne >= 2:
            return []
        out = []
        if queried or not hist:
            out += [op for op in gen(st, ne, obs_plan(tier, ne)) if op[0] in TOPO]
        if not queried:
            out += [['query', q] for q in QUERIES]
        return out

    def gen(st, depth, how):
        geo = st['geo']
        rule, cand, reduced = how
        cols = canon_cols(geo)
        nodes = canon_nodes(geo)
        nc = len(cols)
        cidx = dict((id(c), i) for i, c in enumerate(cols))
        nidx = dict((id(n), i) for i, n in enumerate(nodes))
        valid = st['valid']
        if rule == 'adaptive':
            rule = 'all' if nc <= 6 else 'singles+nbrpairs+full'
        m = mesh_of(geo)
        adj = m.adjacent_pairs()
        adjidx = sorted(tuple(sorted((cidx[a], cidx[b]))) for a, b in (tuple(k) for k in adj))
        if rule == 'g7':
            subs = [[i] for i in stride(range(nc), 12)] + [list(adjidx[len(adjidx) // 2])] + [list(range(nc))]
        elif rule == 'singles+nbrpairs+full':
            subs = [[i] for i in range(nc)] + [list(p) for p in adjidx] + [list(range(nc))]
        else:
            subs = subsets(nc, rule)
        ops = []

        def dup_ok(S, full=False):
            # repeated-member selections: every small selection on the seed itself; deeper in a sequence the
            # first canonical column (and for refine the whole set)
            if depth == 0:
                return len(S) <= 2 or (full and len(S) == nc)
            return S == [0] or (full and len(S) == nc and nc > 1)
        nbr = dict((i, set()) for i in range(nc))
        for a, b in adjidx:
            nbr[a].add(b)
            nbr[b].add(a)
        small = dict((i, len(c.node) in (3, 4)) for i, c in enumerate(cols))
        if valid:
            # refine: the region must be triangles/quadrilaterals.  Where a neighbour has more sides refine()
            # either does not need it (bisection across other sides) or refuses ("not supported") - and a
            # refusal must leave the geometry as it was
            for S in subs:
                if all(small[i] for i in S):
                    for b in BISECT:
                        if reduced and b == 'y':
                            continue
                        ops.append(['refine', S, b])
                        if dup_ok(S, True) and b in (False, True):
                            ops.append(['refine', S, b, 'dup'])
                elif len(S) <= 2 and not reduced:
                    # a region holding a column with more than 4 sides (documented as unsupported), alone or
                    # with one other column, in both orders
                    for T in ([S] if len(S) == 1 else [S, S[::-1]]):
                        for b in BISECT:
                            ops.append(['refine', T, b, 'unsupported'])
            if not reduced and all(small.values()):
                ops.append(['refine', [], False])          # the default argument: all columns
            # split_column: every quadrilateral x every one of its nodes
            quads = [i for i, c in enumerate(cols) if len(c.node) == 4]
            for i in pick(quads, cand):
                for n in cols[i].node:
                    ops.append(['split_column', i, nidx[id(n)]])
            # decompose_columns
            big = [i for i in range(nc) if not small[i]]
            if big:
                ops.append(['decompose_columns', []])
                for S in subs:
                    if any(i in big for i in S) and (len(S) <= 2 or len(S) == nc):
                        ops.append(['decompose_columns', S])
                        if len(S) <= 2 and dup_ok(S):
                            ops.append(['decompose_columns', S, 'dup'])
            ops.append(['fit_surface'])
            if st.get('mode') == 'obs':
                # check(fix=True) on a mesh the reference finds valid: whatever it finds to fix, the mesh stays valid
                ops.append(['check_fix'])
        # reduce to an edge-connected proper subset
        for S in subs:
            if len(S) < nc and edge_connected(geo, [cols[i] for i in S]):
                if reduced and len(S) > 1:
                    continue
                ops.append(['reduce', S])
                if len(S) <= 2 and dup_ok(S):
                    ops.append(['reduce', S, 'dup'])
        # renames
        for i in pick(range(nc), cand):
            ops.append(['rename_column', [i], 'str'])
        if nc > 1:
            ops.append(['rename_column', [0, nc - 1], 'list'])
            if not reduced:
                ops.append(['rename_column', list(range(nc)), 'list'])
            # maps whose new names overlap the old ones: a swap, a cycle, an identity entry next to a real one
            ops.append(['rename_column', [0, nc - 1], 'swap'])
            ops.append(['rename_column', [0, nc - 1], 'partial-identity'])
            if nc > 2:
                ops.append(['rename_column', [0, 1, nc - 1], 'cycle'])
        nl = len(geo.layerlist)
        for li in pick(range(nl), cand):
            ops.append(['rename_layer', [li], 'str'])
        if nl > 1 and not reduced:
            ops.append(['rename_layer', list(range(nl)), 'list'])
        if nl > 2:
            ops.append(['rename_layer', [1, nl - 1], 'swap'])
            if not reduced:
                ops.append(['rename_layer', [1, nl - 1], 'partial-identity'])
                ops.append(['rename_layer', [0, 1, nl - 1], 'cycle'])
        # primitives
        for i in pick(range(nc), cand):
            ops.append(['delete_column', i])
        ops.append(['add_node'])
        used = set()
        for c in geo.columnlist:
            used.update(id(n) for n in c.node)
        for j, n in enumerate(nodes):
            if id(n) not in used:
                ops.append(['delete_node', j])
        bedges = sorted(tuple(sorted(nidx[x] for x in e)) for e in m.boundary_edges())
        for e in pick(bedges, 'ends'):
            ops.append(['add_column', list(e)])
        have = set(frozenset((cidx[id(c.column[0])], cidx[id(c.column[1])])) for c in geo.connectionlist
                   if id(c.column[0]) in cidx and id(c.column[1]) in cidx)
        for p in pick([p for p in adjidx if frozenset(p) not in have], cand):
            ops.append(['add_connection', list(p)])
        for p in pick(sorted(tuple(sorted(k)) for k in have), cand):
            ops.append(['delete_connection', list(p)])
        ops.append(['add_layer'])
        if nl > 2:
            for li in pick(range(1, nl), cand):
                rest = [lay for i, lay in enumerate(geo.layerlist) if i != li and i > 0]
                # every column must keep at least one layer below its surface
                if all(c.surface is None or any(lay.bottom < c.surface for lay in rest) for c in cols):
                    ops.append(['delete_layer', li])
        ops.append(['add_well'])
        for wi in range(len(geo.welllist)):
            ops.append(['delete_well', wi])
        # layers
        if nl > 1:
            lsub = subsets(nl - 1, 'all' if nl - 1 <= 3 and not reduced else 'ends+full')
            for L in lsub:
                for f in (2, 3):
                    if reduced and f == 3:
                        continue
                    ops.append(['refine_layers', [i + 1 for i in L], f])
                    if f == 2 and len(L) <= 2 and (depth == 0 or L == [0]):
                        ops.append(['refine_layers', [i + 1 for i in L], f, 'dup'])
            if not reduced:
                ops.append(['refine_layers', [], 2])
            for which in ('same', 'high', 'low'):
                if reduced and which != 'high':
                    continue
                ops.append(['copy_layers_from', which])
        if st.get('src'):
            ops.append(['translate_source'])
        # surfaces
        ssub = [[]] + ([[i] for i in pick(range(nc), cand)] if not reduced else [])
        for S in ssub:
            ops.append(['snap_columns_to_layers', S])
            ops.append(['snap_columns_to_nearest_layers', S])
            if S and dup_ok(S):
                ops.append(['snap_columns_to_layers', S, 'dup'])
                ops.append(['snap_columns_to_nearest_layers', S, 'dup'])
        ops.append(['translate'])
        ops.append(['rotate'])
        ops.append(['roundtrip'])
        return ops
    return ops_of


# ----------------------------------------------------------------------------------- applying one operation

def fresh_name(taken, length, stem):
    for ch in 'zyxwvutsrqponmlkjihgfedcba':
        for ch2 in 'zyxwvutsrqponmlkjihgfedcba':
            nm = (stem + ch + ch2)[-length:].rjust(length)
            if nm not in taken:
                return nm
    raise core.HarnessError('no fresh name')


def fresh_names(taken, length, stem, k):
    taken = set(taken)
    out = []
    for _ in range(k):
        nm = fresh_name(taken, length, stem)
        taken.add(nm)
        out.append(nm)
    return out


def fit_data(geo):
    import numpy as np
    xs = [n.pos[0] for n in geo.nodelist]
    ys = [n.pos[1] for n in geo.nodelist]
    x0, x1, y0, y1 = min(xs), max(xs), min(ys), max(ys)
    top = geo.layerlist[0].bottom
    data = []
    k = 6
    for i in range(k):
        for j in range(k):
            x = x0 + (x1 - x0) * (i + 0.37) / k
            y = y0 + (y1 - y0) * (j + 0.61) / k
            data.append([x, y, top - 2.37 - 0.153 * (x - x0) - 0.097 * (y - y0)])
    return np.array(data)


def same_value(a, b):
    """Equality that also requires equal types element by element (a list of names that has become a list of
    column objects is not the same argument)."""
    if type(a) is not type(b):
        return False
    if isinstance(a, (list, tuple)):
        return len(a) == len(b) and all(same_value(x, y) for x, y in zip(a, b))
    if isinstance(a, dict):
        return set(a) == set(b) and all(same_value(a[k], b[k]) for k in a)
    try:
        import numpy as np
        if isinstance(a, np.ndarray):
            return a.shape == b.shape and bool(np.array_equal(a, b))
    except ImportError:
        pass
    return a == b


def do(st, name, *args, **kwargs):
    """Calls geo.<name>(*args, **kwargs) with plain-data arguments (names, numbers, arrays), remembers the call
    and notes whether the call changed the arguments it was given."""
    before = copy.deepcopy((args, kwargs))
    st['_call'] = (name, args, kwargs)
    r = getattr(st['geo'], name)(*args, **kwargs)
    if not same_value(before, (args, kwargs)):
        st['_argmod'] = 'argument %r -> %r' % (before, (args, kwargs))
    return r


# operations whose call is repeated, with the very same argument objects, on a deep copy of the geometry taken
# before the call ("the same list of names reused on the re-read file / on a model with the same names")
TWIN_OPS = ('refine', 'decompose_columns', 'reduce', 'rename_column', 'rename_layer', 'refine_layers',
            'snap_columns_to_layers', 'snap_columns_to_nearest_layers', 'translate', 'rotate')


def rename_targets(old, mode, fresh):
    """New names for a rename: fresh ones, or a map onto the old names themselves (the result is still a set of
    distinct names, so the map is a legal simultaneous renaming)."""
    if mode == 'swap':
        return old[::-1]
    if mode == 'cycle':
        return old[1:] + old[:1]
    if mode == 'partial-identity':
        return [old[0]] + fresh[1:]
    return fresh


def selection(names, S, dup):
    """The argument list for a selection: canonical order, or - 'dup' - in reverse order with the first member
    named a second time (overlapping polygon selections concatenated, a name typed twice)."""
    if not dup:
        return [names[i] for i in S]
    return [names[i] for i in reversed(S)] + [names[S[0]]]


def is_dup(op):
    return op[-1] == 'dup'


def apply_op(st, op):
    """Calls the library.  Returns (promise_mesh, input_class)."""
    import mulgrids
    import numpy as np
    geo = st['geo']
    kind = op[0]
    cols = canon_cols(geo)
    nodes = canon_nodes(geo)
    if kind == 'refine':
        S, b = op[1], op[2]
        do(st, 'refine', selection([c.name for c in cols], S, is_dup(op)), bisect=b)
        return True, 'bisect=%s%s%s' % (b, ',repeated-member' if is_dup(op) else '',
                                        ',unsupported-region' if op[-1] == 'unsupported' else '')
    if kind == 'split_column':
        ok = geo.split_column(cols[op[1]].name, nodes[op[2]].name)
        if ok is not True:
            raise ValueError('split_column of a quadrilateral at one of its nodes returned %r' % (ok,))
        return True, 'quad'
    if kind == 'decompose_columns':
        do(st, 'decompose_columns', selection([c.name for c in cols], op[1], is_dup(op)))
        return True, ('all' if not op[1] else 'subset') + (',repeated-member' if is_dup(op) else '')
    if kind == 'fit_surface':
        do(st, 'fit_surface', fit_data(geo), silent=True)
        return False, ''
    if kind == 'check_fix':
        geo.check(fix=True, silent=True)
        return True, ''
    if kind == 'query':
        # a read-only operation: judged by the invariant (and the unchanged canonical form) only; what it raises
        # or answers is not part of the statement
        try:
            if op[1] == 'check':
                geo.check(fix=False, silent=True)
            elif op[1] == 'missing_connections':
                geo.get_missing_connections()
            else:
                if run_queries(geo):
                    st['_qraise'] = True
        except (core.CaseTimeout, core.HarnessError):
            raise
        except Exception:
            st['_qraise'] = True
        st['obs'] = list(st.get('obs', ())) + [[op[1], edits_in(st['hist'][:-1])]]
        return st['valid'], op[1]
    if kind == 'reduce':
        do(st, 'reduce', selection([c.name for c in cols], op[1], is_dup(op)))
        st['valid'] = True          # reduce() runs check(fix=True); re-established below by the reference
        return True, 'repeated-member' if is_dup(op) else ''
    if kind == 'rename_column':
        old = [cols[i].name for i in op[1]]
        new = rename_targets(old, op[2], fresh_names(geo.column.keys(), geo.colname_length, 'z', len(old)))
        objs = [geo.column[nm] for nm in old]
        if op[2] == 'str':
            ok = do(st, 'rename_column', old[0], new[0])
        else:
            ok = do(st, 'rename_column', old, new)
        if ok is not True:
            raise ValueError('rename_column of existing column(s) returned %r' % (ok,))
        if [c.name for c in objs] != new:
            st['_renamed'] = 'columns %r renamed with %r are now called %r' % (old, new, [c.name for c in objs])
        return False, op[2]
    if kind == 'rename_layer':
        old = [geo.layerlist[i].name for i in op[1]]
        new = rename_targets(old, op[2], fresh_names(geo.layer.keys(), geo.layername_length, 'y', len(old)))
        objs = [geo.layer[nm] for nm in old]
        if op[2] == 'str':
            ok = do(st, 'rename_layer', old[0], new[0])
        else:
            ok = do(st, 'rename_layer', old, new)
        if ok is not True:
            raise ValueError('rename_layer of existing layer(s) returned %r' % (ok,))
        if [l.name for l in objs] != new:
            st['_renamed'] = 'layers %r renamed with %r are now called %r' % (old, new, [l.name for l in objs])
        return False, op[2]
    if kind == 'delete_column':
        geo.delete_column(cols[op[1]].name)
        st['valid'] = False
        return False, 'primitive'
    if kind == 'add_node':
        xs = [n.pos[0] for n in geo.nodelist]
        ys = [n.pos[1] for n in geo.nodelist]
        nm = fresh_name(geo.node.keys(), geo.colname_length, 'x')
        geo.add_node(mulgrids.node(nm, np.array([max(xs) + 5., max(ys) + 5.])))
        st['valid'] = False
        return False, 'primitive'
    if kind == 'delete_node':
        geo.delete_node(nodes[op[1]].name)
        st['valid'] = False
        return False, 'primitive'
    if kind == 'add_column':
        n1, n2 = nodes[op[1][0]], nodes[op[1][1]]
        # the column that owns this boundary side, to put the new node on the outer side of it
        owner = [c for c in geo.columnlist if n1 in c.node and n2 in c.node][0]
        i1, i2 = owner.node.index(n1), owner.node.index(n2)
        if (i1 + 1) % len(owner.node) != i2:
            n1, n2 = n2, n1
        d = n2.pos - n1.pos
        mid = 0.5 * (n1.pos + n2.pos)
        out = np.array([d[1], -d[0]])        # to the right of the counter-clockwise direction = outside
        newnode = mulgrids.node(fresh_name(geo.node.keys(), geo.colname_length, 'x'), mid + 0.5 * out)
        geo.add_node(newnode)
        nm = fresh_name(geo.column.keys(), geo.colname_length, 'v')
        col = mulgrids.column(nm, [n2, n1, newnode], surface=owner.surface)
        geo.add_column(col)
        geo.set_column_num_layers(col)
        st['valid'] = False
        return False, 'primitive'
    if kind == 'add_connection':
        a, b = cols[op[1][0]], cols[op[1][1]]
        geo.add_connection(mulgrids.connection([a, b]))
        st['valid'] = False
        return False, 'primitive'
    if kind == 'delete_connection':
        a, b = cols[op[1][0]], cols[op[1][1]]
        key = [k for k, c in geo.connection.items() if set(id(x) for x in c.column) == set((id(a), id(b)))]
        geo.delete_connection(key[0])
        st['valid'] = False
        return False, 'primitive'
    if kind == 'add_layer':
        low = geo.layerlist[-1]
        nm = fresh_name(geo.layer.keys(), geo.layername_length, 'w')
        geo.add_layer(mulgrids.layer(nm, low.bottom - 10., low.bottom - 5., low.bottom))
        return False, 'primitive'
    if kind == 'delete_layer':
        geo.delete_layer(geo.layerlist[op[1]].name)
        return False, 'primitive'
    if kind == 'add_well':
        nm = fresh_name(geo.well.keys(), 5, 'w')
        top = geo.layerlist[0].bottom if geo.layerlist else 0.
        geo.add_well(mulgrids.well(nm, [np.array([5., 5., top]), np.array([6., 5., top - 12.])]))
        return False, 'primitive'
    if kind == 'delete_well':
        geo.delete_well(geo.welllist[op[1]].name)
        return False, 'primitive'
    if kind == 'refine_layers':
        do(st, 'refine_layers', selection([l.name for l in geo.layerlist], op[1], is_dup(op)), factor=op[2])
        return False, 'factor=%d%s' % (op[2], ',repeated-member' if is_dup(op) else '')
    if kind == 'copy_layers_from':
        donor = layers_donor(op[1] if len(op) > 1 else 'same')
        st['src'] = [donor]
        st['src_canon'] = [canon_geo(donor)]
        geo.copy_layers_from(donor)
        return False, op[1] if len(op) > 1 else 'same'
    if kind == 'translate_source':
        st['src'][0].translate([0., 0., 3.0])
        return False, ''
    if kind == 'snap_columns_to_layers':
        do(st, 'snap_columns_to_layers', 5.0, selection([c.name for c in cols], op[1], is_dup(op)))
        return False, ('all' if not op[1] else 'subset') + (',repeated-member' if is_dup(op) else '')
    if kind == 'snap_columns_to_nearest_layers':
        do(st, 'snap_columns_to_nearest_layers', selection([c.name for c in cols], op[1], is_dup(op)))
        return False, ('all' if not op[1] else 'subset') + (',repeated-member' if is_dup(op) else '')
    if kind == 'translate':
        do(st, 'translate', [7.5, -2.5, 3.0], wells=True)
        return False, ''
    if kind == 'rotate':
        do(st, 'rotate', 30., wells=True)
        return False, ''
    if kind == 'roundtrip':
        path = os.path.join(core.scratch(), 'c10_%d.dat' % os.getpid())
        geo.write(path)
        st['geo'] = mulgrids.mulgrid(path)
        os.remove(path)
        st['obs'] = []          # another object: nothing observed on it yet
        g2 = st['geo']
        st['_roundtrip'] = [(k, a, b) for k, a, b in (('nodes', len(geo.nodelist), len(g2.nodelist)),
                                                      ('columns', len(geo.columnlist), len(g2.columnlist)),
                                                      ('connections', len(geo.connectionlist), len(g2.connectionlist)),
                                                      ('layers', len(geo.layerlist), len(g2.layerlist)),
                                                      ('wells', len(geo.welllist), len(g2.welllist))) if a != b]
        return False, ''
    raise core.HarnessError('unknown operation %r' % (op,))


REPAIRABLE = ('node.column', 'col.connection', 'col.neighbour', 'connection-dict-keys', 'col.area', 'num_layers',
              'block_name_list', 'block_connection_name_list', 'orphan-node')


def repair(geo, clauses=()):
    """Rebuilds every derived structure from the primary ones (node list, column node lists, connection
    list, layers, surfaces) so that the search can go on behind a finding.  For the primitives this is the
    documented remedy (setup_block_name_index, setup_block_connection_name_index, set_column_num_layers,
    identify_neighbours); for the other methods it is what a repaired method would have left."""
    m = mesh_of(geo)
    if 'orphan-node' in clauses:
        # what delete_orphans() / check(fix=True) would do, decided by the reference
        used = set(id(n) for c in geo.columnlist for n in c.node)
        geo.nodelist = [n for n in geo.nodelist if id(n) in used]
        geo.node = dict((n.name, n) for n in geo.nodelist)
    for n in geo.nodelist:
        n.column = set()
    for c in geo.columnlist:
        for n in c.node:
            n.column.add(c)
        c.connection = set()
        c.neighbour = set()
        c.area = float(m.area(id(c)))
        if c.surface is not None:
            c.num_layers = len([lay for lay in geo.layerlist[1:] if lay.bottom < c.surface])
    geo.connection = {}
    for con in geo.connectionlist:
        geo.connection[(con.column[0].name, con.column[1].name)] = con
        for c in con.column:
            c.connection.add(con)
        con.column[0].neighbour.add(con.column[1])
        con.column[1].neighbour.add(con.column[0])
    geo.setup_block_name_index()
    geo.setup_block_connection_name_index()


def step_impl(st, op, sink):
    """One transition on the private clone 'st'.  sink(sig, what) receives findings on derived structures,
    after which the state is repaired and the search goes on; the returned list holds the findings that end
    the branch (error states are not expanded)."""
    kind = op[0]
    st['hist'] = st['hist'] + [op]
    was_valid = st['valid']
    st.pop('_roundtrip', None)
    st.pop('_call', None)
    st.pop('_argmod', None)
    st.pop('_renamed', None)
    main_before = canon_geo(st['geo']) if kind == 'translate_source' else None
    # a region holding a column with more than four sides is documented as unsupported: refine() may refuse by
    # a message or by an exception, but a refusal must leave the geometry as it was
    unsupported = kind == 'refine' and op[-1] == 'unsupported'
    refused_before = canon_geo(st['geo']) if unsupported else None
    query_before = canon_geo(st['geo']) if kind == 'query' else None
    st.pop('_qraise', None)
    twin = None
    if kind in TWIN_OPS and not unsupported:
        twin = copy.deepcopy(st['geo'])
    raised = None
    try:
        with quiet():
            promise, klass = apply_op(st, op)
    except core.CaseTimeout:
        raise
    except core.HarnessError:
        raise
    except Exception as e:
        if not unsupported:
            return [('%s|%s|raises-%s|%s' % (ID, kind, type(e).__name__, op_class(op)),
                     '%s raised %s: %s' % (kind, type(e).__name__, str(e)[:200]))]
        raised, promise, klass = e, True, op_class(op)
    geo = st['geo']
    with quiet():
        found = invariant(geo, promise_mesh=promise, coords_too=promise and was_valid)
    out = []
    # an operation on one geometry must not change another: the layer source of copy_layers_from
    hard = []
    for i, src in enumerate(st.get('src', [])):
        if kind == 'translate_source':
            if canon_geo(geo) != main_before:
                hard.append(('other-geometry-changed', 'translating the geometry the layers were copied from '
                             'changed the geometry that copied them'))
            st['src_canon'][i] = canon_geo(src)
        elif canon_geo(src) != st['src_canon'][i]:
            hard.append(('other-geometry-changed', 'the geometry the layers were copied from is no longer what '
                         'it was before the operation (layers %r)' % ([(l.name, l.bottom) for l in src.layerlist],)))
        with quiet():
            for clause, text in invariant(src, promise_mesh=False):
                hard.append(('source:' + clause, 'in the geometry the layers were copied from: ' + text))
    if st.get('_renamed'):
        hard.append(('names-not-as-mapped', st.pop('_renamed')))
    if unsupported and canon_geo(geo) != refused_before:
        hard.append(('refused-but-changed', 'refine() of a region with a column of more than 4 sides %s and left the '
                     'geometry changed' % ('raised %s' % type(raised).__name__ if raised else 'returned')))
    if kind == 'query' and canon_geo(geo) != query_before:
        hard.append(('query-changed-geometry', 'the read-only operation %s changed the geometry' % op[1]))
    for k, a, b in st.pop('_roundtrip', None) or ():
        hard.append(('objects-lost', '%d %s written, %d read back' % (a, k, b)))
    # arguments are the caller's: unchanged after the call; and the same argument objects used on a second,
    # identical geometry must give the same result there and leave the first geometry alone
    if st.get('_argmod'):
        hard.append(('argument-modified', 'the call changed the arguments it was given: ' + st.pop('_argmod')[:200]))
    call = st.pop('_call', None)
    if twin is not None and call is not None:
        first_after = canon_geo(geo)
        name, args, kwargs = call
        plain = is_dup(op) and kind in ('refine', 'reduce', 'decompose_columns', 'refine_layers')
        try:
            if plain:
                # a member named twice (and another order of the members) selects the same set: the copy gets
                # the selection without the repeat, in list order, and must end in the same state
                sel = [a for a in args if isinstance(a, list)][0]
                uniq = sorted(set(sel), key=sel[::-1].index)
                with quiet():
                    getattr(twin, name)(*[uniq if a is sel else a for a in args], **kwargs)
                if canon_geo(twin) != first_after:
                    hard.append(('repeated-member:differs', 'selection %r gives a different geometry than %r'
                                 % (sel, uniq)))
                raise StopIteration
            with quiet():
                getattr(twin, name)(*args, **kwargs)
            if canon_geo(geo) != first_after:
                hard.append(('second-object:first-changed', 'the same call with the same argument objects on a copy of '
                             'the geometry changed the first geometry'))
            if canon_geo(twin) != first_after:
                hard.append(('second-object:differs', 'the same call with the same argument objects on a copy of the '
                             'geometry (taken before the call) gives a different geometry'))
        except (core.CaseTimeout, core.HarnessError):
            raise
        except StopIteration:
            pass
        except Exception as e:
            hard.append(('second-object:raises-%s' % type(e).__name__, 'the same call with the same argument '
                         'objects on a copy of the geometry raised: %s' % str(e)[:150]))
    for clause, text in hard:
        out.append(('%s|%s|%s|%s' % (ID, kind, clause, klass), 'after %s: %s' % (kind, text)))
    if hard:
        return out + [('%s|%s|%s|%s' % (ID, kind, clause, klass), 'after %s: %s' % (kind, text))
                      for clause, text in found]
    names_done = False
    for clause, text in found:
        if kind in PRIMITIVES and clause in ('block_name_list', 'block_connection_name_list'):
            if not names_done:       # F15 family: one signature per primitive
                out.append(('%s|%s|name-lists-stale|primitive' % (ID, kind),
                            'after the primitive %s the block / connection name lists are not what a fresh '
                            'recomputation gives (%s)' % (kind, text)))
            names_done = True
        else:
            out.append(('%s|%s|%s|%s' % (ID, kind, clause, klass), 'after %s: %s' % (kind, text)))
    if found and all(clause in REPAIRABLE for clause, text in found):
        for sig, what in out:
            sink(sig, what)
        out = []
        with quiet():
            repair(geo, [clause for clause, text in found])
            again = invariant(geo, promise_mesh=promise, coords_too=promise and was_valid)
        for clause, text in again:
            out.append(('%s|%s|%s-after-repair|%s' % (ID, kind, clause, klass),
                        'after %s and a rebuild of all derived structures: %s' % (kind, text)))
    if kind == 'reduce' and not out:
        st['valid'] = mesh_valid(geo) and edge_connected(geo, geo.columnlist)
    return out


def op_class(op):
    kind = op[0]
    if kind == 'refine':
        return 'bisect=%s%s%s' % (op[2], ',repeated-member' if is_dup(op) else '',
                                  ',unsupported-region' if op[-1] == 'unsupported' else '')
    if is_dup(op):
        return 'repeated-member'
    if kind in ('rename_column', 'rename_layer'):
        return op[2]
    if kind in PRIMITIVES:
        return 'primitive'
    if kind == 'refine_layers':
        return 'factor=%d' % op[2]
    if kind == 'copy_layers_from':
        return op[1] if len(op) > 1 else 'same'
    if kind == 'query':
        return op[1]
    return ''


# ----------------------------------------------------------------------------------- units

NCHUNK = {'quick': {'rect2x2': 16, 'rect3x2': 40, 'mixed6': 8, 'g7': 8, 'rect2x2L': 1, 'rect2x1n': 4, 'hang7r0': 24,
                    'rect2x2Lw0': 16, 'rect2x2Lw3': 1, 'conv1rt': 1, 'conv2rt': 12},
          'thorough': {'rect2x2': 68, 'rect3x2': 48, 'mixed6': 40, 'g7': 8, 'rect2x2L': 16, 'rect2x1n': 16,
                       'rect2x2Lw0': 16, 'rect2x2Lw3': 16, 'conv1rt': 12, 'conv2rt': 12}}
NCHUNK['quick'].update({'rect2x2+obs': 8, 'mixed6+obs': 8})
NCHUNK['thorough'].update({'rect2x2+obs': 16, 'mixed6+obs': 16, 'rect3x2+obs': 16, 'hang7r0+obs': 8})
for _r in range(7):
    NCHUNK['thorough']['hang7r%d' % _r] = 8
    if _r:
        NCHUNK['quick']['hang7r%d' % _r] = 1


def builder_specs():
    specs = []
    for nx in (1, 2, 3):
        for ny in (1, 2, 3):
            for conv in (0, 1, 2, 3):
                for atm in (0, 1, 2):
                    specs.append(['rectangular', nx, ny, conv, atm])
    specs.append(['from_gmsh', 'gmsh2_2.msh'])
    specs.append(['from_gmsh', 'gmsh4_1.msh'])
    specs.append(['from_amesh', 'in', 'segmt'])
    for f in ('g1', 'g2', 'g3', 'g4', 'g5', 'g6', 'g7'):
        specs.append(['read', f + '.dat'])
    return specs


def build(spec):
    """(geometry, the builder promises a valid mesh)"""
    import mulgrids
    T = os.path.join(core.REPO, 'tests', 'mulgrid')
    if spec[0] == 'rectangular':
        return mulgrids.mulgrid().rectangular([10.] * spec[1], [7.] * spec[2], [5., 6.], convention=spec[3],
                                              atmos_type=spec[4]), True
    if spec[0] == 'from_gmsh':
        return mulgrids.mulgrid().from_gmsh(os.path.join(T, spec[1]), [10., 10.]), True
    if spec[0] == 'from_amesh':
        return mulgrids.mulgrid().from_amesh(os.path.join(T, spec[1]), os.path.join(T, spec[2]))[0], True
    if spec[0] == 'read':
        return mulgrids.mulgrid(os.path.join(T, spec[1])), False      # a file holds whatever mesh it holds
    raise core.HarnessError('builder %r' % (spec,))


def check_builder(spec):
    try:
        with quiet(), core.timelimit(TIME_OP):
            geo, promise = build(spec)
    except core.CaseTimeout:
        return None, [('%s|seed:%s|timeout|' % (ID, spec[0]), '%r did not return' % (spec,))]
    except Exception as e:
        return None, [('%s|seed:%s|raises-%s|' % (ID, spec[0], type(e).__name__),
                       'building %r raised %s: %s' % (spec, type(e).__name__, str(e)[:200]))]
    with quiet():
        found = invariant(geo, promise_mesh=promise, coords_too=promise)
    return geo, [('%s|seed:%s|%s|' % (ID, spec[0], clause), 'freshly built by %s: %s' % (spec[0], text))
                 for clause, text in found]


def units(tier):
    us = [('builders', 0, 1)]
    for seed, n in NCHUNK[tier].items():
        for k in range(n):
            us.append((seed, k, n))
    return us


def run_unit(unit, tier, rec):
    seed, k, n = unit
    if seed == 'builders':
        for spec in builder_specs():
            geo, viol = check_builder(spec)
            rec.transition(validated=True)
            rec.outcomes['build:' + spec[0]] += 1
            if geo is not None:
                rec.state(core.h64(canon({'geo': geo, 'valid': not viol})))
            for sig, what in viol:
                rec.violation(sig, what, {'seed': 'builder', 'build': spec, 'ops': []})
        rec.count('units', 1)
        return
    depth = BOUNDS[tier]['depth'][seed]
    try:
        with core.timelimit(TIME_OP):
            st0 = make_seed(seed)
    except (core.HarnessError, core.CaseTimeout):
        raise
    except Exception as e:
        # the seeds are made with the library's own builders and primitives
        if k == 0:
            rec.transition(validated=True)
            rec.violation('%s|seed:%s|raises-%s|' % (ID, seed, type(e).__name__),
                          'building the seed geometry %s raised %s: %s' % (seed, type(e).__name__, str(e)[:200]),
                          {'seed': seed, 'ops': []})
        return
    ops_of = ops_of_factory(tier)
    first = list(ops_of(st0, 0))
    chosen = set(i for i in range(len(first)) if i % n == k)
    if not chosen:
        return

    def sink_for(st):
        def sink(sig, what):
            rec.violation(sig, what, {'seed': st['seed'], 'ops': st['hist']})
            rec.outcomes['finding-repaired-and-continued'] += 1
        return sink

    def step(st, op):
        v = step_impl(st, op, sink_for(st))
        rec.outcomes[op[0] if op[0] != 'query' else 'query:' + op[1]] += 1
        if st.pop('_qraise', None):
            rec.outcomes['query-raised'] += 1
        if not v and len(st['hist']) >= depth:
            # last level: the engine keeps every new state in its frontier although it will not expand it;
            # keep the canonical form only
            st['_canon'] = canon(st)
            st['geo'] = None
            st['src'] = []
        return v

    def canon_of(st):
        c = st.get('_canon')
        return c if c is not None else canon(st)

    def seed_check(st):
        with quiet():
            found = invariant(st['geo'], promise_mesh=True, coords_too=True)
        return [('%s|seed:%s|%s|' % (ID, st['seed'], clause), 'seed state: ' + text) for clause, text in found]

    engine_seq.bfs(rec, ID, seed, st0, ops_of, step, canon_of, depth, first_ops=chosen,
                   state_check=seed_check if k == 0 else None)
    rec.count('units', 1)
    rec.count('depth1_ops_%s' % seed, len(chosen))


def replay(case):
    if case.get('build'):
        return check_builder(case['build'])[1]
    try:
        st = make_seed(case['seed'])
    except core.HarnessError:
        raise
    except Exception as e:
        return [('%s|seed:%s|raises-%s|' % (ID, case['seed'], type(e).__name__), 'building the seed raised %s' % e)]
    out = []
    ops = case['ops']
    if not ops:
        with quiet():
            found = invariant(st['geo'], promise_mesh=True, coords_too=True)
        return [('%s|seed:%s|%s|' % (ID, st['seed'], clause), 'seed state: ' + text) for clause, text in found]
    for i, op in enumerate(ops):
        got = []
        fatal = step_impl(st, op, lambda sig, what: got.append((sig, what)))
        if i == len(ops) - 1:
            out = got + fatal
        elif fatal:
            return [(s, 'at step %d of %d: %s' % (i + 1, len(ops), w)) for s, w in fatal]
    return out


def minimise(rec):
    """The units are sub-searches by first operation, so the case kept for a signature is the first one of
    whichever unit was merged first, not necessarily the shortest.  Try the suffixes of its operation list
    (shortest first) from the seed and keep the first that gives the same signature."""
    for sig, e in rec.viol.items():
        case = e.get('case') or {}
        ops = case.get('ops') or []
        if len(ops) < 2 or case.get('build'):
            continue
        for k in range(1, len(ops)):
            cand = {'seed': case['seed'], 'ops': ops[-k:]}
            try:
                with core.timelimit(TIME_OP):
                    got = replay(cand)
            except Exception:
                continue
            if any(s2 == sig for s2, w in got):
                cand['minimised_from'] = ops
                e['case'] = cand
                break


def finalize(rec, tier):
    minimise(rec)
    return {'seeds': BOUNDS[tier]['seeds'], 'depth_per_seed': BOUNDS[tier]['depth'],
            'operations_executed': dict((k, v) for k, v in rec.outcomes.items()
                                        if k not in ('violating-transition', 'finding-repaired-and-continued'))}
