"""C06 - time-history extraction equals stepping through the listing, and terminates.

Space (E2, crossed completely per file): every non-empty subset of the file's tables in every order with one
item per table; per table every column x row in {first, middle, last} x key form in {name, integer index, negative
integer index, reversed name (connection tables)} as single-item calls in tuple form and in list form, and all of a table's
items together in one call (in order and reversed) and every row of a table in one call; a reduced selection set from every starting index;
short in {True, False} on AUTOUGH2 files with short output; selections with no valid item; and successive calls on ONE
reader: every ordered pair (thorough: also every ordered triple), with repetition, of the selections {each table alone,
every pair of tables, all tables} x short on/off, each call of the sequence judged like a single call.

Oracle (the property statement): one stepping pass (first(), then next() until it says no) gives
cube[table][time]; the series of an item must equal that cell at every full result time (negated for a
connection named in reverse), paired with the times shown while stepping; with AUTOUGH2 short output
the values at short result sets must equal an independent tokenisation of the printed SHORT tables.
The call must return (readline budget on a counting file proxy - never wall clock), must not raise,
and must leave index, time, step and every table bit-identical.
"""
import itertools

import numpy as np

from mc import core
from ref import fortnum, listkit, navmodel

ID = 'C06'
LEVEL = 'exploration'
ENGINE = 'E2'
EXHAUSTIVE = True
RULE = ('per shipped listing: all ordered non-empty subsets of its tables (one item per table: middle row by name, '
        'column chosen by the table\'s rank); per table all columns x rows {first, middle, last} x key forms {name, '
        'integer index, negative integer index (-rows for the first, interior, -1 for the last), reversed name where the table allows it} x call forms {tuple, one-element list}, plus all items '
        'of a table in one call, in order and reversed; every starting index x {one item per table singly, first two '
        'tables, all tables}; short in {True, False} where the file has short output; selections without a valid item. '
        'Files with short output: for every ordered pair of tables every combination {row printed in the table\'s SHORT output, row not '
        'printed there} for the two items, and each such item alone, short on/off. After every agreeing call the returned arrays '
        'are modified in place and the reader\'s own times/steps must not change. '
        'Every cell of every table (all rows by index x all columns, one call per table) on every shipped listing in both tiers. '
        'start_datetime in {a whole-second start, a start with microseconds} x {each table, all tables}: times must come back as '
        'start + t seconds to the microsecond (listings whose times leave the datetime range excepted). '
        'Successive calls on one reader: every ordered pair (thorough: and triple) with repetition of the selections {each table, every '
        'pair of tables, all tables} x short on/off, rows and columns moved from call to call. '
        'A case is one history() call on a fresh reader, or one such sequence of calls on one fresh reader (every call judged); non-trivial = it names at least one existing cell; distinct = '
        'distinct (file, selection, call form, short, starting index)')
ASSUMPTIONS = ['expected values come from the reader\'s own tables while stepping (first(), next()...), as the statement '
               'defines them; values at AUTOUGH2 short result sets come from an independent whitespace tokenisation of '
               'the printed SHORT tables with ref/fortnum.py numbers',
               'rows by integer index use -rows..rows-1: the documented zero-based index, and the negative indices the '
               'listing table itself accepts (table[-1] is the last row), so that history and table access name the same row',
               'a reversed name is used only where the reversed pair is not itself a row of the table',
               'rows whose name is printed for more than one row of a table (AUTOUGH2/7: Atx13, Atx15) are outside the '
               'space: which of them a name or a SHORT-table row refers to is not defined',
               'selections without any valid item are explored for termination and for leaving the reader unchanged; '
               'their return value and whether they raise are not fixed by the statement',
               'the arrays history() returns belong to the caller: modifying them in place must not change the reader (judged on '
               'the reader\'s public times, fulltimes, steps, fullsteps); if it does, they are put back and exploration goes on',
               'a one-element list may return either the bare (times, values) pair or a one-element list of it',
               'non-termination = more than 20 x lines x (result sets + 2) readline calls in one history() call, or more '
               'than 4 x lines + 1000 consecutive reads at end of file',
               'every call is made on an independent deep copy of a pristine freshly opened listing (compared field by '
               'field with a second genuine open once per file); replays use a genuine fresh open']
BOUNDS = {'quick': {'files': 'all-cells calls on every shipped listing; everything else on those smaller than 300 kB', 'ordered_subsets': 'all',
                    'items': 'all columns x 3 rows x key forms x 2 call forms', 'start_indices': 'all',
                    'successive_calls_on_one_reader': 'all ordered pairs of the selection set'},
          'thorough': {'files': 'all shipped listings (counted in counters.files)', 'ordered_subsets': 'all',
                       'items': 'all columns x 3 rows x key forms x 2 call forms', 'start_indices': 'all',
                       'successive_calls_on_one_reader': 'all ordered pairs and all ordered triples of the selection set'}}
TECHNIQUE = ('bounded exhaustive enumeration of history() selections (all ordered table subsets, all cells of the '
             'row/column/key-form lattice, all starting indices) on the real reader against a stepping pass')
LEVEL_TEXT = ('Every ordered table subset, every column x boundary row x key form of every table and every starting index of '
              'every shipped listing is extracted with the real history() and compared cell by cell with stepping; '
              'termination is decided by a deterministic readline budget.')
LEVEL_NOTE = ('Columns are crossed with the first/middle/last rows; all rows are extracted for one column each by index and by name. Trusted: ref/navmodel.py result-set scan, ref/fortnum.py numbers, '
              'the whitespace tokenisation of AUTOUGH2 SHORT tables.')

SPEC = {'element': 'e', 'element1': 'e1', 'element2': 'e2', 'connection': 'c', 'primary': 'p', 'generation': 'g'}
PARTS = ('subsets', 'items', 'starts', 'sequences')

_pristine = listkit.Pristine()


def units(tier):
    us = []
    for key, path, size in listkit.shipped():
        # every cell of every table, one call per table: on every shipped listing in both tiers (cheap, and the big
        # files hold the rows that are printed more than once with different values)
        us.append((key, 'cells'))
        if tier == 'quick' and size >= 300000:
            continue
        for part in PARTS:
            us.append((key, part))
        if tier == 'thorough':
            us.append((key, 'sequences3'))
    return us


# ----------------------------------------------------------------------------------------------------
# independent reading of AUTOUGH2 tables (for the values printed at short result sets)

def autough2_tables(lines, lo, hi):
    """Tables opened in lines[lo:hi]: {keyword: [row text, ...]} (first table of each keyword)."""
    out = {}
    i = lo
    while i < hi:
        m = navmodel._KW.match(lines[i])
        if m and any(navmodel._AUT_HEAD.search(lines[j]) for j in range(i + 1, min(i + 4, len(lines)))):
            kw = m.group(1)
            j = i + 1
            while j < len(lines) and not lines[j][1:].startswith(kw):
                j += 1                                  # second keyword line (end of the header)
            r = j + 1
            while r < len(lines) and 'INDEX' not in lines[r]:
                r += 1
            rows = []
            r += 1
            while r < len(lines) and not lines[r][1:].startswith(kw):
                if lines[r].strip():
                    rows.append(lines[r])
                r += 1
            out.setdefault(kw, rows)
            i = r + 1
        else:
            i += 1
    return out


def split_row(line, ncols):
    """-> (row identity, [value tokens]); values are the last ncols blank-separated tokens, the printed index the
    one before, the key text what precedes it.  A row is identified by (key text, printed index): block names can
    occur twice in a table (AUTOUGH2/7 prints two rows named Atx13), the printed index cannot."""
    parts = line[1:].rstrip().rsplit(None, ncols + 1)      # column 1 is Fortran carriage control ('1' = new page)
    if len(parts) != ncols + 2:
        return None, None
    return (parts[0].strip(), parts[1]), parts[2:]


class FileCtx(object):
    def __init__(self, key):
        self.key = key
        self.path = listkit.path_of(key)
        self.scan = listkit.scan_of(self.path)
        self.problems = []
        lst = _pristine.fresh(self.path)
        self.sim = lst.simulator
        self.tablenames = list(lst._tablenames)
        self.tables = {}
        for t in self.tablenames:
            tb = lst._table[t]
            first, dups = {}, set()
            for i, nm in enumerate(tb.row_name):
                if nm in first:
                    dups.add(nm)
                else:
                    first[nm] = i
            # 'dups': names printed for more than one row (AUTOUGH2/7 prints two identical rows Atx13) - which
            # of them a name, or a row of a SHORT table, refers to is not defined: such rows are outside the space
            self.tables[t] = {'rows': list(tb.row_name), 'cols': list(tb.column_name), 'rev': bool(tb.allow_reverse_keys),
                              'rowset': set(tb.row_name), 'first': first, 'dups': dups}
        # ---- the stepping pass
        self.cube = []
        lst._file.arm()
        try:
            with listkit.quiet():
                lst.first()
                while True:
                    self.cube.append((int(lst.index), float(lst.time), int(lst.step),
                                      dict((t, lst._table[t]._data.copy()) for t in self.tablenames)))
                    lst._file.arm()
                    if not lst.next():
                        break
                    if len(self.cube) > len(self.scan.sets) + 1:
                        raise listkit.BudgetExceeded('next() keeps saying there is more')
        except listkit.BudgetExceeded as e:
            self.problems.append(('C06|stepping|nontermination|%s' % self.sim, 'stepping through %s: %s' % (key, e)))
        except Exception as e:
            self.problems.append(('C06|stepping|raises-%s|%s' % (type(e).__name__, self.sim),
                                  'stepping through %s raised %r' % (key, e)))
        lst._file.disarm()
        self.n = len(self.cube)
        self.fulltimes = [c[1] for c in self.cube]
        nfull = len(self.scan.full)
        if not self.problems and self.n != nfull:
            self.problems.append(('C06|stepping|number-of-result-times|%s' % self.sim,
                                  'stepping through %s visits %d result times, the file prints %d' % (key, self.n, nfull)))
        listkit.close_listing(lst)
        # ---- short output (AUTOUGH2): values printed at the short result sets
        self.has_short = any(s.kind == 'short' for s in self.scan.sets)
        self.short_rows = None
        if self.has_short and not self.problems:
            with open(self.path, 'rb') as f:
                lines = [l.decode('latin-1').rstrip('\r\n') for l in f.read().splitlines(True)]
            sets = self.scan.sets
            bounds = [s.line for s in sets] + [len(lines)]
            firstfull = [j for j, s in enumerate(sets) if s.kind == 'full'][0]
            fulltabs = autough2_tables(lines, bounds[firstfull], bounds[firstfull + 1])
            self.keytext = {}
            for t in self.tablenames:
                kw = t[0].upper() * 5
                ncols = len(self.tables[t]['cols'])
                kts = [split_row(l, ncols)[0] for l in fulltabs.get(kw, [])]
                if len(kts) != len(self.tables[t]['rows']) or None in kts:
                    self.problems.append(('C06|stepping|table-rows-differ-from-printed|%s|%s' % (self.sim, t),
                                          '%s: the %s table has %d rows, %d are printed at the first full result set'
                                          % (key, t, len(self.tables[t]['rows']), len(kts))))
                    kts = None
                self.keytext[t] = kts
            self.short_rows = []
            for j, s in enumerate(sets):
                if s.kind != 'short':
                    self.short_rows.append(None)
                    continue
                tabs = autough2_tables(lines, bounds[j], bounds[j + 1])
                per = {}
                for kw, rows in tabs.items():
                    tname = {'E': 'element', 'C': 'connection', 'G': 'generation'}[kw[0]]
                    if tname not in self.tables:
                        continue
                    ncols = len(self.tables[tname]['cols'])
                    d = {}
                    for l in rows:
                        kt, toks = split_row(l, ncols)
                        if kt is not None:
                            if kt in d and d[kt] != toks:
                                raise core.HarnessError('%s prints row %r twice with different values in a SHORT table'
                                                        % (key, kt))
                            d[kt] = toks
                    per[tname] = d
                self.short_rows.append(per)

    # -- what the statement says the series of one item is
    def expected(self, tname, r, c, reverse, short):
        sgn = -1.0 if reverse else 1.0
        if not (self.has_short and short):
            return list(self.fulltimes), [sgn * float(self.cube[i][3][tname][r, c]) for i in range(self.n)]
        times, vals = [], []
        fi = 0
        for j, s in enumerate(self.scan.sets):
            if s.kind == 'full':
                times.append(self.cube[fi][1])
                vals.append(sgn * float(self.cube[fi][3][tname][r, c]))
                fi += 1
            else:
                per = self.short_rows[j].get(tname)
                kts = self.keytext.get(tname)
                if per is None or kts is None:
                    continue
                toks = per.get(kts[r])
                if toks is None:
                    continue
                v = fortnum.parse_real(toks[c])
                if v is None or v[0] == 'blank':
                    raise core.HarnessError('unreadable number %r in a SHORT table of %s' % (toks[c], self.key))
                times.append(s.time)
                vals.append(sgn * v[0])
        return times, vals

    def resolve(self, item):
        """(table name, row number, column number, reversed) of a selection item, None if it names no cell.
        Written from the documentation of the selection tuple."""
        spec, key, col = item
        if not isinstance(spec, str) or not spec:
            return None
        names = {'e': 'element', 'c': 'connection', 'g': 'generation', 'p': 'primary'}
        t = names.get(spec[0].lower())
        if t is None:
            return None
        if spec[-1].isdigit():
            t += spec[-1]
        tb = self.tables.get(t)
        if tb is None or col not in tb['cols']:
            return None
        c = tb['cols'].index(col)
        if isinstance(key, int):
            n = len(tb['rows'])
            if -n <= key < n:               # as table[key] does: a negative index counts from the last row
                return (t, key % n, c, False)
            return None
        if key in tb['rowset']:
            if key in tb['dups']:
                raise core.HarnessError('ambiguous row name %r is not part of the space' % (key,))
            return (t, tb['first'][key], c, False)
        if tb['rev'] and isinstance(key, tuple) and key[::-1] in tb['rowset']:
            if key[::-1] in tb['dups']:
                raise core.HarnessError('ambiguous row name %r is not part of the space' % (key,))
            return (t, tb['first'][key[::-1]], c, True)
        return None


# ----------------------------------------------------------------------------------------------------
# the families of calls

def row_picks(nrows):
    picks = []
    for r in (0, nrows // 2, nrows - 1):
        if 0 <= r < nrows and r not in picks:
            picks.append(r)
    return picks


def key_forms(tb, r):
    """[(form name, key)] for row r."""
    name = tb['rows'][r]
    if name in tb['dups']:
        return []
    forms = [('name', name), ('index', r), ('negative-index', r - len(tb['rows']))]
    if tb['rev'] and isinstance(name, tuple) and len(name) > 1 and name[::-1] != name and name[::-1] not in tb['rowset']:
        forms.append(('reversed', name[::-1]))
    return forms


def mid_key(tb):
    """Name of the middle row (the next one whose name is printed once)."""
    n = len(tb['rows'])
    for d in range(n):
        nm = tb['rows'][(n // 2 + d) % n]
        if nm not in tb['dups']:
            return nm
    raise core.HarnessError('no unambiguous row')


def shorts(ctx):
    return [True, False] if ctx.has_short else [None]


def calls_subsets(ctx):
    rank = dict((t, i) for i, t in enumerate(ctx.tablenames))
    for size in range(1, len(ctx.tablenames) + 1):
        for sub in itertools.permutations(ctx.tablenames, size):
            sel = []
            for t in sub:
                tb = ctx.tables[t]
                sel.append((SPEC[t], mid_key(tb), tb['cols'][rank[t] % len(tb['cols'])]))
            for sh in shorts(ctx):
                yield {'selection': sel, 'form': 'list', 'short': sh, 'start': 0}
    for c in calls_short_membership(ctx):
        yield c


def calls_short_membership(ctx):
    """Files with short output: selections built from the SHORT tables' own membership.  For every ordered pair of
    tables, every combination of {a row printed in the table's short output, a row not printed there} for the two
    items (a table without short output only has rows 'not printed'), with short on and off; and each such item alone."""
    if not ctx.has_short:
        return
    member = {}
    for t in ctx.tablenames:
        tb = ctx.tables[t]
        kts = ctx.keytext.get(t)
        printed = set()
        for per in ctx.short_rows:
            if per and t in per:
                printed |= set(per[t])
        ins = [r for r in range(len(tb['rows'])) if kts and kts[r] in printed and tb['rows'][r] not in tb['dups']]
        outs = [r for r in range(len(tb['rows'])) if not (kts and kts[r] in printed) and tb['rows'][r] not in tb['dups']]
        member[t] = {}
        if ins:
            member[t]['in-short'] = ins[len(ins) // 2]
        if outs:
            member[t]['not-in-short'] = outs[len(outs) // 2]

    def item(t, kind):
        tb = ctx.tables[t]
        return (SPEC[t], tb['rows'][member[t][kind]], tb['cols'][0])
    for t in ctx.tablenames:
        for kind in sorted(member[t]):
            for sh in (True, False):
                yield {'selection': [item(t, kind)], 'form': 'list', 'short': sh, 'start': 0}
    for t1, t2 in itertools.permutations(ctx.tablenames, 2):
        for k1 in sorted(member[t1]):
            for k2 in sorted(member[t2]):
                for sh in (True, False):
                    yield {'selection': [item(t1, k1), item(t2, k2)], 'form': 'list', 'short': sh, 'start': 0}


def calls_items(ctx):
    for t in ctx.tablenames:
        tb = ctx.tables[t]
        together = []
        for col in tb['cols']:
            for r in row_picks(len(tb['rows'])):
                for fname, key in key_forms(tb, r):
                    item = (SPEC[t], key, col)
                    together.append(item)
                    for form in ('tuple', 'list'):
                        for sh in shorts(ctx):
                            yield {'selection': [item], 'form': form, 'short': sh, 'start': 0}
        # every row of the table in one call: by integer index (last column) and by name (first column)
        allrows_i = [(SPEC[t], r, tb['cols'][-1]) for r in range(len(tb['rows'])) if tb['rows'][r] not in tb['dups']]
        allrows_n = [(SPEC[t], nm, tb['cols'][0]) for nm in tb['rows'] if nm not in tb['dups']]
        for sel in (together, together[::-1], allrows_i, allrows_n):
            for sh in shorts(ctx):
                yield {'selection': list(sel), 'form': 'list', 'short': sh, 'start': 0}
    # selections that name no cell at all
    t0 = ctx.tablenames[0]
    tb0 = ctx.tables[t0]
    absent = [s for n, s in sorted(SPEC.items()) if n not in ctx.tables]
    invalid = [('x', 0, tb0['cols'][0]), (SPEC[t0], 'no such row', tb0['cols'][0]),
               (SPEC[t0], ('zz  8', 'zz  9'), tb0['cols'][0])]
    invalid += [(s, 0, tb0['cols'][0]) for s in absent]
    for it in invalid:
        yield {'selection': [it], 'form': 'tuple', 'short': None, 'start': 0}
    yield {'selection': invalid, 'form': 'list', 'short': None, 'start': 0}


def calls_starts(ctx):
    names = ctx.tablenames

    def one(t):
        tb = ctx.tables[t]
        return (SPEC[t], mid_key(tb), tb['cols'][0])
    for start in range(ctx.n):
        for t in names:
            for sh in shorts(ctx):
                yield {'selection': [one(t)], 'form': 'tuple', 'short': sh, 'start': start}
        groups = []
        if len(names) >= 2:
            groups.append(names[:2])
        if len(names) >= 3:
            groups.append(names)
        for g in groups:
            for sh in shorts(ctx):
                yield {'selection': [one(t) for t in g], 'form': 'list', 'short': sh, 'start': start}
    for c in calls_datetimes(ctx):
        yield c


START_DATETIMES = ['1955-01-01T00:00:00', '1999-12-31T23:59:58.750001']


def calls_datetimes(ctx):
    """start_datetime (documented keyword: times are returned as datetimes): a whole-second start and one carrying
    microseconds x each table singly and all tables together (x short on/off)."""
    import datetime
    names = ctx.tablenames
    groups = [[t] for t in names] + ([list(names)] if len(names) >= 2 else [])
    for sd in START_DATETIMES:
        # a listing whose times (steady-state runs reach 1e15 s) carry the start beyond year 9999 cannot have its
        # times expressed as datetimes at all: failing loudly is all that can be asked - outside the space
        try:
            for st in ctx.scan.sets:
                datetime.datetime.fromisoformat(sd) + datetime.timedelta(seconds=st.time)
        except OverflowError:
            continue
        for g in groups:
            for sh in shorts(ctx):
                yield {'selection': [(SPEC[t], mid_key(ctx.tables[t]), ctx.tables[t]['cols'][-1]) for t in g],
                       'form': 'tuple' if len(g) == 1 else 'list', 'short': sh, 'start': 0, 'start_datetime': sd}


def calls_cells(ctx):
    """Every cell of every table: per table one call with every row (by integer index; rows whose name is printed
    for several rows excepted) x every column."""
    for t in ctx.tablenames:
        tb = ctx.tables[t]
        rows = [r for r in range(len(tb['rows'])) if tb['rows'][r] not in tb['dups']]
        sel = [(SPEC[t], r, c) for r in rows for c in tb['cols']]
        for sh in shorts(ctx):
            yield {'selection': sel, 'form': 'list', 'short': sh, 'start': 0}


def sequence_selections(ctx):
    """The selections successive calls on one reader are drawn from: each table alone, every pair of tables,
    all tables together (x short on/off where the file has short output).  'variant' moves the row and the
    column so that successive calls do not ask for the same cells."""
    names = ctx.tablenames
    groups = [[t] for t in names] + [list(p) for p in itertools.combinations(names, 2)]
    if len(names) >= 3:
        groups.append(list(names))

    def item(t, variant):
        tb = ctx.tables[t]
        rows = [nm for nm in tb['rows'] if nm not in tb['dups']]
        row = rows[[len(rows) // 2, 0, len(rows) - 1][variant % 3]]
        return (SPEC[t], row, tb['cols'][[0, len(tb['cols']) - 1, len(tb['cols']) // 2][variant % 3]])
    out = []
    for g in groups:
        for sh in shorts(ctx):
            out.append((g, sh))

    def call(sel, variant):
        g, sh = sel
        return {'selection': [item(t, variant) for t in g], 'form': 'tuple' if len(g) == 1 and variant % 2 == 0 else 'list',
                'short': sh, 'start': 0}
    return out, call


def calls_sequences(ctx, length=2):
    """Every ordered tuple (with repetition) of 'length' selections, as successive history() calls on ONE reader."""
    sels, call = sequence_selections(ctx)
    for combo in itertools.product(range(len(sels)), repeat=length):
        yield {'sequence': [call(sels[i], pos) for pos, i in enumerate(combo)]}


def calls_sequences3(ctx):
    return calls_sequences(ctx, 3)


FAMILY = {'cells': calls_cells, 'subsets': calls_subsets, 'items': calls_items, 'starts': calls_starts, 'sequences': calls_sequences,
          'sequences3': calls_sequences3}
ORDINAL = {2: 'second-call', 3: 'third-call'}


# ----------------------------------------------------------------------------------------------------

def to_json(case, key):
    def k(x):
        return {'t': list(x)} if isinstance(x, tuple) else x
    if 'sequence' in case:
        return {'file': key, 'sequence': [to_json(c, key) for c in case['sequence']]}
    return {'file': key, 'selection': [[s, k(r), c] for s, r, c in case['selection']], 'form': case['form'],
            'short': case['short'], 'start': case['start'], 'start_datetime': case.get('start_datetime')}


def from_json(case):
    def k(x):
        return tuple(x['t']) if isinstance(x, dict) else x
    if 'sequence' in case:
        return {'sequence': [from_json(c) for c in case['sequence']]}
    return {'selection': [(s, k(r), c) for s, r, c in case['selection']], 'form': case['form'],
            'short': case['short'], 'start': case['start'], 'start_datetime': case.get('start_datetime')}


def same(a, b):
    return a == b or (a != a and b != b)


def eval_call(ctx, case, lst):
    """One history() call on the reader 'lst' (fresh, at index 0).  -> ([(sig, what)], outcome)"""
    sel = case['selection']
    resolved = [ctx.resolve(it) for it in sel]
    valid = [r for r in resolved if r is not None]
    involved = [t for t in ctx.tablenames if any(r[0] == t for r in valid)]
    tabs = 'tables=' + ('+'.join(involved) if involved else 'none')
    # non-termination is listed per (simulator, unordered table subset); every other clause per
    # (simulator, one table or several, table and key form of the failing item) - a handful per defect
    width = 'one-table' if len(involved) <= 1 else 'several-tables'
    sim = ctx.sim
    out = []
    if case['start']:
        lst._file.arm()
        with listkit.quiet():
            lst.index = case['start']
        lst._file.disarm()
    pre = listkit.observe(lst, names=True)
    arg = sel[0] if case['form'] == 'tuple' else list(sel)
    kwargs = {} if case['short'] is None else {'short': case['short']}
    sd = None
    if case.get('start_datetime'):
        import datetime
        sd = datetime.datetime.fromisoformat(case['start_datetime'])
        kwargs['start_datetime'] = sd
    desc = 'history(%r%s) on %s from index %d' % (arg if len(sel) <= 6 else arg[:6] + ['...%d items' % len(sel)],
                                                  ''.join(', %s=%r' % kv for kv in kwargs.items()), ctx.key, case['start'])
    lst._file.arm()
    try:
        with listkit.quiet():
            res = lst.history(arg, **kwargs)
    except listkit.BudgetExceeded as e:
        lst._file.disarm()
        return [('C06|history|nontermination|%s|%s' % (sim, tabs), '%s does not terminate: %s' % (desc, e))], 'nontermination'
    except core.CaseTimeout:
        raise
    except Exception as e:
        lst._file.disarm()
        if not valid:
            return [], 'invalid-selection-raises'
        return [('C06|history|raises-%s|%s|%s' % (type(e).__name__, sim, width), '%s raised %r' % (desc, e))], 'raises'
    calls = lst._file.calls
    lst._file.disarm()
    post = listkit.observe(lst, names=True)
    if post != pre:
        part = 'index' if post[0] != pre[0] else 'time' if post[1] != pre[1] else 'step' if post[2] != pre[2] else 'tables'
        out.append(('C06|history|reader-shows-other-%s-afterwards|%s' % (part, sim),
                    '%s: the reader showed (index, time, step) = %r before and %r after%s'
                    % (desc, pre[:3], post[:3], '' if part != 'tables' else '; table contents changed')))
    if not valid:
        return out, ('no-valid-item-returns-None' if res is None else 'no-valid-item-returns-something')
    if len(valid) != len(sel):
        raise core.HarnessError('mixed valid/invalid selection is not part of the space: %r' % (sel,))
    # ---- shape of the result
    if len(sel) == 1:
        if isinstance(res, list) and len(res) == 1 and case['form'] == 'list':
            res = res[0]
        results = [res]
    else:
        results = res
    ok_shape = isinstance(results, list) and len(results) == len(sel) and all(
        isinstance(x, tuple) and len(x) == 2 for x in results)
    if not ok_shape:
        out.append(('C06|history|result-shape|%s|%s' % (sim, width),
                    '%s returned %s, expected a (times, values) pair per item' % (desc, _shape(res))))
        return out, 'violates'
    short = True if case['short'] is None else case['short']
    for it, rs, (tg, vg) in zip(sel, resolved, results):
        tname, r, c, rev = rs
        te, ve = ctx.expected(tname, r, c, rev, short)
        form = 'reversed' if rev else (('negative-index' if it[1] < 0 else 'index') if isinstance(it[1], int) else 'name')
        cls = '%s|%s|item=%s:%s' % (sim, width, tname, form)
        vg = list(np.asarray(vg).tolist()) if np.ndim(vg) == 1 else None
        tg = list(np.asarray(tg).tolist()) if np.ndim(tg) == 1 else None
        if vg is None or tg is None:
            out.append(('C06|history|result-shape|%s' % cls, '%s: item %r gives non-vector results' % (desc, it)))
            break
        if len(vg) != len(ve):
            out.append(('C06|history|series-length|%s' % cls,
                        '%s: item %r has %d values, stepping gives %d' % (desc, it, len(vg), len(ve))))
            break
        bad = [i for i in range(len(ve)) if not same(vg[i], ve[i])]
        if bad:
            i = bad[0]
            out.append(('C06|history|values-differ|%s' % cls,
                        '%s: item %r differs from stepping at %d of %d result sets, first at position %d: history %r, '
                        'table %r' % (desc, it, len(bad), len(ve), i, vg[i], ve[i])))
            break
        if sd is not None:
            # documented: times come back as datetimes, start + t seconds (to the microsecond a datetime holds)
            import datetime
            te = [sd + datetime.timedelta(seconds=t) for t in te]
            one_us = datetime.timedelta(microseconds=1)
            okt = len(tg) == len(te) and all(isinstance(a, datetime.datetime) and abs(a - b) <= one_us for a, b in zip(tg, te))
            if not okt:
                # the conversion is one code path for every simulator, table and key form: one signature
                out.append(('C06|history|datetimes-differ',
                            '%s: item %r is paired with %r..., start_datetime + the result times is %r...'
                            % (desc, it, tg[:3], te[:3])))
                break
        elif len(tg) != len(te) or any(not same(a, b) for a, b in zip(tg, te)):
            out.append(('C06|history|times-differ|%s' % cls,
                        '%s: item %r is paired with times %r..., the result sets visited have %r...'
                        % (desc, it, tg[:4], te[:4])))
            break
    if not out:
        out += scribble_check(ctx, lst, results, desc, sim)
    return out, ('violates' if out else 'agrees')


def scribble_check(ctx, lst, results, desc, sim):
    """What history() returns belongs to the caller: scaling the returned times (t *= 1/86400 is what callers do) or
    overwriting the returned values in place must not change the reader's own times and steps.  Judged by effect:
    the reader's public arrays before and after.  If they did change, they are put back (so that what lies behind
    this defect is still explored) and the violation is reported."""
    names = ('times', 'fulltimes', 'steps', 'fullsteps')
    saved = dict((n, np.array(getattr(lst, n), copy=True)) for n in names)
    for tg, vg in results:
        for arr in (tg, vg):
            try:
                if isinstance(arr, np.ndarray) and arr.dtype.kind == 'f' and arr.size:
                    arr *= 2.0
                    arr += 1.0
            except ValueError:
                pass                    # a read-only array is a fine way of protecting it
    changed = [n for n in names if np.asarray(getattr(lst, n)).shape != saved[n].shape
               or np.asarray(getattr(lst, n)).tobytes() != saved[n].tobytes()]
    if not changed:
        return []
    for n in changed:
        setattr(lst, n, saved[n])
    # one code path for every simulator: one signature
    return [('C06|history|returned-arrays-are-the-readers-own',
             '%s: modifying the returned arrays in place (t *= 2; t += 1) changed the reader\'s %s'
             % (desc, ', '.join(changed)))]


def eval_case(ctx, case, lst):
    """One case on the reader 'lst': a single call, or successive calls on this one reader - each judged against
    stepping, for termination and for leaving the reader unchanged.  A violation in the n-th call (n > 1) gets the
    signature suffix |second-call / |third-call; the sequence stops there (the reader is no longer trusted)."""
    if 'sequence' not in case:
        return eval_call(ctx, case, lst)
    carried = []
    for n, call in enumerate(case['sequence'], 1):
        viol, outcome = eval_call(ctx, call, lst)
        if viol and all('|returned-arrays-are-the-readers-own' in sig for sig, _ in viol):
            # remedied inside eval_call (the reader's arrays were put back): report once, go on with the sequence
            carried += [v for v in viol if v[0] not in [c[0] for c in carried]]
            continue
        if viol:
            if n > 1:
                before = '; '.join(repr([it[0] for it in c['selection']]) for c in case['sequence'][:n - 1])
                viol = [('%s|%s' % (sig, ORDINAL[n]), '%s [after history() calls on the same reader for tables %s]' % (what, before))
                        for sig, what in viol]
            return carried + viol, outcome
    return carried, ('violates' if carried else 'agrees')


def _shape(res):
    if isinstance(res, (list, tuple)):
        return '%s of %d' % (type(res).__name__, len(res))
    return type(res).__name__


def run_unit(unit, tier, rec):
    key, part = unit
    try:
        _run_unit(unit, tier, rec)
    except listkit.OpenFailed as e:
        fam = listkit.scan_of(listkit.path_of(key)).family
        rec.violation('C06|open|%s|%s' % (e.kind, fam), str(e), {'file': key, 'stepping': True})
        rec.case((key, part, 'open'), nontrivial=False, outcome='no-reader')
    finally:
        _pristine.drop(listkit.path_of(key))


def _run_unit(unit, tier, rec):
    key, part = unit
    ctx = FileCtx(key)
    if ctx.problems:
        if part == 'cells':
            for sig, what in ctx.problems:
                rec.violation(sig, what, {'file': key, 'stepping': True})
        rec.case((key, 'stepping'), nontrivial=False, outcome='stepping-failed')
        if any('|stepping|' in s and 'table-rows' not in s for s, _ in ctx.problems):
            return
    ncalls = 0
    for case in FAMILY[part](ctx):
        lst = _pristine.fresh(ctx.path)
        try:
            with core.timelimit(300):
                viol, outcome = eval_case(ctx, case, lst)
        except core.CaseTimeout:
            viol, outcome = [('C06|history|timeout|%s' % ctx.sim, 'call did not return within 300 s')], 'timeout'
        finally:
            listkit.close_listing(lst)
        js = to_json(case, key)
        valid = not outcome.startswith('no-valid') and outcome != 'invalid-selection-raises'
        rec.case((key, repr(js)), nontrivial=valid, outcome=outcome)
        if viol:
            again = dict(_replay_with(ctx, js))
            for sig, what in viol:
                if sig not in again:
                    sig += '|not-reproduced-on-a-genuine-fresh-open'
                rec.violation(sig, what, js)
        ncalls += 1
        if part == 'subsets':
            rec.count('ordered_subset_calls_%s' % ctx.sim)
            if outcome == 'agrees':
                rec.count('ordered_subset_calls_agreeing_with_stepping_%s' % ctx.sim)
        if 'sequence' in case or len(case['selection']) > 1:
            rec.sample({'file': key, 'call': js, 'outcome': outcome})
    rec.count('calls_%s' % part, ncalls)
    if part == 'cells':
        rec.count('files', 1)
        rec.count('result_sets_stepped', ctx.n)
        rec.count('files_with_short_output', 1 if ctx.has_short else 0)


def replay(case):
    try:
        ctx = FileCtx(case['file'])
        if case.get('stepping'):
            return ctx.problems
        return _replay_with(ctx, case)
    except listkit.OpenFailed as e:
        fam = listkit.scan_of(listkit.path_of(case['file'])).family
        return [('C06|open|%s|%s' % (e.kind, fam), str(e))]


def _replay_with(ctx, case):
    lst = listkit.open_listing(ctx.path)
    try:
        with core.timelimit(300):
            viol, outcome = eval_case(ctx, from_json(case), lst)
    finally:
        listkit.close_listing(lst)
    return viol
