"""C08 - a t2grid stays internally consistent under any sequence of edits.

E1: breadth-first search over call sequences on the real t2grid objects (mc/engine_seq.py), side by side
with the list/dict reference model ref/gridmodel.py.

State     = (real t2grid, GridModel).  Canonical form = ordered abstraction of the real grid with payloads.
Alphabet  = every documented edit with complete small argument domains (see ops_of); an operation is offered
            only where its documentation makes it meaningful (DESIGN 4.2, listed in ASSUMPTIONS).
Oracle    = (1) the invariant of the statement, clause by clause, on the real grid after every transition
            (and on the operand grids of + and embed);  (2) refinement: the abstraction of the real grid
            equals the model after the same edit (names, order, rock type, volume, connection identity) -
            this is what says that a rename lost or swapped nothing;  (3) no exception but the documented ones.
A transition that violates is attributed to its operation and not expanded.
"""
import contextlib
import copy
import io
import itertools
import os
import re

from mc import core, engine_seq
from ref.gridmodel import GridModel, ModelError, fix_blockname

ID = 'C08'
LEVEL = 'model_checking'
ENGINE = 'E1'
EXHAUSTIVE = True
RULE = ('breadth-first over every sequence of enabled edits to the depth bound from each seed grid; a state is distinct '
        'when the ordered abstraction of the real grid (rock list, block list with rock/volume/centre, oriented '
        'connection list with distances/area/cosine/direction) differs; a transition is one edit executed on the real '
        'grid and on the reference model with the invariant and the refinement relation evaluated')
ASSUMPTIONS = [
    'add_block with the name of a connected block replaces it (documented) and the connections must then join the new object; '
    'contract: add_rocktype replaces only rock types no block uses; delete_rocktype only of unused rock types (the documentation does not say what becomes of the dependants)',
    'contract: a block is added only with a rock type registered in the grid; connections join two distinct present blocks',
    'reorder lists name existing blocks / connections at most once (a pair reversed only when the reversed name does not denote '
    'another connection); incomplete lists - also reorder(geo=) on a grid holding more than the geometry, e.g. after minc - must '
    'lose nothing: unnamed objects stay after the named ones, or the call refuses and leaves the grid as it was; demote_block only existing names',
    'rename_blocks fixes TOUGH2-style spellings (blank in column 4 between digits) in keys and values by default (documented); maps with such spellings are in the alphabet, with and without fix_blocknames',
    'contract: rename_blocks maps are one-to-one on the present blocks and their image avoids present blocks that are '
    'not themselves renamed (keys that name no block are allowed and ignored)',
    'minc with a selection that yields a matrix block name twice (block listed twice, two names differing in the first character, '
    'a colliding matrix_blockname function, a name that exists) must raise the documented "Duplicate MINC matrix block name" error and '
    'leave a consistent grid; how much of the work is done before the refusal is not asserted (the model is re-read from the grid)',
    'the object last deleted (block, connection, rock type) may be added again, to the same grid and (a block) to a partner grid',
    'contract: a + b only when every block name present in both is unconnected in a (same reason as add_block); a rock type '
    'name registered in both grids and in use in a is allowed ("the value from b is used"): from such a sum or embed on, '
    'blocks may hold a rock type object other than the registered one of the same name, and only the name-based clause of '
    'the statement is judged in the states descended from it (the extra object-identity clause is skipped there); '
    'embed per its own guards (no common block names; otherwise, and for a host that is too small, it returns None)',
    'check(fix=True): which of several equally frequent neighbour rock types is chosen, and the order in which several '
    'isolated blocks are fixed, are not asserted',
    'distances and gravity cosine of a reversed connection are not compared here (property C09)',
    'rock type registration is judged by name (the statement says "one registered in the grid"); additionally by object identity except in states descended from a sum with a common rock type name in use',
    'read-only queries (rocktype_frequencies, rocktype_frequency, check(fix=False), index lookups, counts) are operations of the alphabet: they must leave the grid unchanged and give the same answers twice; their values are not compared to the model',
    'every attribute of the real objects outside the documented data model (private caches) is part of the canonical form, so no-op transitions that only change private state are expanded',
    'trusted: ref/gridmodel.py written from doc/source/t2grids.rst',
]
BOUNDS = {
    'quick': {'empty': 'depth 3 full alphabet + 1 level reduced alphabet',
              'seeds': '6 seeds: depth 1 full alphabet + 1 level reduced alphabet + 1 level {clean_rocktypes}'},
    'thorough': {'empty': 'depth 4 full alphabet + 1 level {clean_rocktypes}',
                 'seeds': '6 seeds: depth 2 full alphabet; chain3, ring4, datfile + 1 level reduced alphabet; the geometry seeds '
                          '+ 1 level {clean_rocktypes} (depth 3 everywhere)'},
}
TECHNIQUE = ('explicit-state breadth-first search over edit sequences on the real t2grid against a list/dict reference '
             'model; invariant and refinement checked on every transition')
LEVEL_TEXT = ('Every sequence of documented grid edits up to the stated depth, with complete small argument domains '
              '(all one-to-one rename maps on a 5-name universe, all permutations and reversal subsets of small lists, '
              'all block subsets for MINC), is executed on the real t2grid from the empty grid and six seed grids; '
              'states are de-duplicated on a canonical form and the statement\'s invariant plus refinement against the '
              'reference model is evaluated on each transition.')
LEVEL_NOTE = ('Bounded depth (not closed: the edit alphabet can always add objects). Beyond 4-5 blocks permutations are '
              'reduced to transpositions/rotation/reversal. Trusted: ref/gridmodel.py. Contract exclusions are listed '
              'in assumptions.')

UNI = ['  a 1', '  b 1', '  c 1', '  d 1']
SPARE = '  e 1'
ROCKS = ['rock1', 'rock2']
VOL = {'a': 1.0, 'b': 2.0, 'c': 4.0, 'd': 8.0, 'e': 16.0, 'p': 0.25, 'q': 0.125}
MINC_FRACTIONS = [[0.1, 0.9], [0.2, 0.3, 0.5]]
SEEDS = ['chain3', 'ring4', 'geo_atm0', 'geo_atm1', 'geo_atm2', 'datfile', 'transferred']

_quiet = io.StringIO()


def quiet():
    _quiet.seek(0)
    _quiet.truncate()
    return contextlib.redirect_stdout(_quiet)


# ------------------------------------------------------------------------------------------------
# payloads: fixed functions of the names at creation time, distinct per name / ordered pair
# ------------------------------------------------------------------------------------------------
def idx(name):
    return 'abcdepqz'.find(name[2]) if name[2] in 'abcdepqz' else 9


def vol_of(name):
    return VOL.get(name[2], 3.0)


def con_payload(n1, n2):
    i, j = idx(n1), idx(n2)
    return {'d': [1.0 + i / 8., 2.0 + j / 8.], 'area': 10. * (i + 1) + (j + 1), 'dircos': -0.5 if i < j else 0.25,
            'direction': 1 + (i + j) % 3}


class State(object):
    def __init__(self, seed, grid, model, uni, hist=(), alias=False, deleted=None):
        self.seed, self.grid, self.model, self.uni, self.hist = seed, grid, model, uni, list(hist)
        # alias: the state descends from a sum / embed of two grids that both register a rock type name in
        # use in the left one; blocks may then hold a rock type object other than the registered one of the
        # same name, and only the statement's name-based clause is judged
        self.alias = alias
        # the object most recently removed from the grid by delete_block / delete_connection / delete_rocktype,
        # as ('block' | 'connection' | 'rocktype', object): a caller may hold on to it and add it again
        self.deleted = deleted

    def __deepcopy__(self, memo):
        grid, deleted = copy.deepcopy((self.grid, self.deleted), memo)      # one memo: shared objects stay shared
        return State(self.seed, grid, self.model.copy(), self.uni, self.hist, self.alias, deleted)


# ------------------------------------------------------------------------------------------------
# abstraction and invariant of the real grid
# ------------------------------------------------------------------------------------------------
def num(x):
    return None if x is None else float(x)


def abstract(grid):
    rocks = [rt.name for rt in grid.rocktypelist]
    blocks = [(b.name, b.rocktype.name, num(b.volume),
               None if b.centre is None else tuple(float(x) for x in b.centre)) for b in grid.blocklist]
    conns = [(c.block[0].name, c.block[1].name, num(c.area), c.direction, num(c.distance[0]), num(c.distance[1]),
              num(c.dircos)) for c in grid.connectionlist]
    return rocks, blocks, conns


_KNOWN = {
    'grid': set(['rocktypelist', 'blocklist', 'connectionlist', 'rocktype', 'block', 'connection']),
    'rocktype': set(['name', 'nad', 'density', 'porosity', 'permeability', 'conductivity', 'specific_heat', 'compressibility',
                     'expansivity', 'dry_conductivity', 'tortuosity', 'relative_permeability', 'capillarity']),
    'block': set(['name', 'volume', 'rocktype', 'centre', 'atmosphere', 'ahtx', 'pmx', 'nseq', 'nadd', 'connection_name']),
    'connection': set(['block', 'direction', 'distance', 'area', 'dircos', 'sigma', 'nseq', 'nad1', 'nad2', 'centre', 'midpoint',
                       'normal']),
}
_ADDR = re.compile(r'0x[0-9a-fA-F]+')


def hidden_state(grid):
    """Every attribute of the real objects that is not part of the documented data model (private caches,
    memo tables, flags), rendered without addresses.  It is part of the canonical form: two states that
    look alike but carry different private state are different states, so a no-op that only fills a cache
    is expanded like any other transition.  Empty on a tree without such attributes (no cost)."""
    out = []
    for k in sorted(set(vars(grid)) - _KNOWN['grid']):
        out.append(('grid', k, _ADDR.sub('0x', repr(vars(grid)[k]))))
    for kind, lst in (('rocktype', grid.rocktypelist), ('block', grid.blocklist), ('connection', grid.connectionlist)):
        for i, o in enumerate(lst):
            for k in sorted(set(vars(o)) - _KNOWN[kind]):
                out.append((kind, i, k, _ADDR.sub('0x', repr(vars(o)[k]))))
    return out


def deleted_summary(state):
    if state.deleted is None:
        return None
    kind, o = state.deleted
    g = state.grid
    if kind == 'block':
        return (kind, o.name, num(o.volume), o.rocktype.name, g.rocktype.get(o.rocktype.name) is o.rocktype,
                sorted(o.connection_name))
    if kind == 'connection':
        return (kind, [b.name for b in o.block], [g.block.get(b.name) is b for b in o.block], num(o.area), o.direction)
    return (kind, o.name)


def canon(state):
    g = state.grid
    held = [g.rocktype.get(b.rocktype.name) is b.rocktype for b in g.blocklist]    # future renames depend on it
    return (abstract(g), sorted(g.block), sorted(g.connection), sorted(g.rocktype), held, state.alias, hidden_state(g),
            deleted_summary(state))


def invariant(grid, identity=True):
    """First failed clause of the statement as (clause, detail), or None.  identity=False leaves out the
    extra demand that a block's rock type is the very object registered under its name."""
    for kind, lst, dct in (('rocktype', grid.rocktypelist, grid.rocktype), ('block', grid.blocklist, grid.block),
                           ('connection', grid.connectionlist, grid.connection)):
        ids_l = [id(o) for o in lst]
        ids_d = [id(o) for o in dct.values()]
        if len(set(ids_l)) != len(ids_l):
            return kind + '-list-duplicate-object', '%slist holds an object twice: %r' % (kind, lst)
        if set(ids_l) != set(ids_d) or len(ids_d) != len(ids_l):
            return (kind + '-dict-vs-list', '%s dict has %r, list has %r' % (kind, sorted(map(str, dct.keys())),
                                                                             [str(o) for o in lst]))
        if kind == 'connection':
            for k, o in dct.items():
                if len(o.block) != 2 or k != (o.block[0].name, o.block[1].name):
                    return 'connection-key', 'connection %r is held under key %r' % (o, k)
        else:
            for k, o in dct.items():
                if k != o.name:
                    return kind + '-key', '%s %r is held under key %r' % (kind, o.name, k)
            names = [o.name for o in lst]
            if len(set(names)) != len(names):
                return kind + '-names-unique', '%s names %r' % (kind, names)
    inlist = set(id(b) for b in grid.blocklist)
    for con in grid.connectionlist:
        for b in con.block:
            if id(b) not in inlist or grid.block.get(b.name) is not b:
                return 'connection-blocks-in-grid', 'connection %r joins block %r which is not a block of the grid' % (con, b.name)
    for b in grid.blocklist:
        mentions = set(k for k, con in grid.connection.items() if any(x is b for x in con.block))
        if set(b.connection_name) != mentions:
            return ('block-connection-record', 'block %r records %r, the connections mentioning it are %r'
                    % (b.name, sorted(b.connection_name), sorted(mentions)))
    for b in grid.blocklist:
        if b.rocktype is None or b.rocktype.name not in grid.rocktype:
            return 'block-rocktype-registered', 'block %r has rock type %r, registered are %r' % (
                b.name, getattr(b.rocktype, 'name', None), sorted(grid.rocktype))
    for b in (grid.blocklist if identity else ()):
        if grid.rocktype[b.rocktype.name] is not b.rocktype:
            return ('block-rocktype-is-registered-object', 'block %r has a rock type object named %r which is not the '
                    'object registered under that name' % (b.name, b.rocktype.name))
    return None


def close(a, b):
    if a is None or b is None:
        return a is None and b is None
    return abs(a - b) <= 1e-9 * max(abs(a), abs(b), 1e-300)


def refinement(grid, model):
    """First difference between the abstraction of the real grid and the model, or None."""
    rocks, blocks, conns = abstract(grid)
    if rocks != model.rocks:
        return 'model-mismatch:rocktypes', 'rock type list %r, reference %r' % (rocks, model.rocks)
    if sorted(b[0] for b in blocks) != sorted(model.blocks):
        return 'model-mismatch:block-set', 'blocks %r, reference %r' % ([b[0] for b in blocks], model.blocks)
    if [b[0] for b in blocks] != model.blocks:
        return 'model-mismatch:block-order', 'block order %r, reference %r' % ([b[0] for b in blocks], model.blocks)
    for name, rock, vol, centre in blocks:
        i = model.binfo[name]
        if rock != i['rock']:
            return 'model-mismatch:block-rocktype', 'block %r has rock type %r, reference %r' % (name, rock, i['rock'])
        if not close(vol, i['volume']):
            return 'model-mismatch:block-volume', 'block %r has volume %r, reference %r' % (name, vol, i['volume'])
    pairs = [(c[0], c[1]) for c in conns]
    if sorted(pairs) != sorted(model.conns):
        return 'model-mismatch:connection-set', 'connections %r, reference %r' % (pairs, model.conns)
    if pairs != model.conns:
        return 'model-mismatch:connection-order', 'connection order %r, reference %r' % (pairs, model.conns)
    for c in conns:
        i = model.cinfo[(c[0], c[1])]
        if (i['area'] is not None and not close(c[2], i['area'])) or c[3] != i['direction']:
            return ('model-mismatch:connection-identity', 'connection %r has area %r direction %r, reference %r %r'
                    % ((c[0], c[1]), c[2], c[3], i['area'], i['direction']))
    return None


def model_from_grid(grid):
    """Seed model of a library-built grid (fromgeo, file): its own abstraction."""
    m = GridModel()
    rocks, blocks, conns = abstract(grid)
    for r in rocks:
        m.add_rocktype(r)
    for name, rock, vol, centre in blocks:
        m.add_block(name, rock, vol, centre)
    for n1, n2, area, direction, d1, d2, cos in conns:
        m.add_connection((n1, n2), [d1, d2], area, cos, direction)
    return m


# ------------------------------------------------------------------------------------------------
# building real objects
# ------------------------------------------------------------------------------------------------
def mk_block(grid, name, rockname, volume=None, centre=None):
    import t2grids
    return t2grids.t2block(name, vol_of(name) if volume is None else volume, grid.rocktype[rockname], centre=centre)


def mk_con(grid, n1, n2, blocks=None):
    import t2grids
    p = con_payload(n1, n2)
    bl = blocks or [grid.block[n1], grid.block[n2]]
    return t2grids.t2connection(bl, p['direction'], list(p['d']), p['area'], p['dircos'])


def both_add_rock(grid, model, name):
    import t2grids
    grid.add_rocktype(t2grids.rocktype(name=name))
    model.add_rocktype(name)


def both_add_block(grid, model, name, rock, volume=None, centre=None):
    grid.add_block(mk_block(grid, name, rock, volume, centre))
    model.add_block(name, rock, vol_of(name) if volume is None else volume, centre)


def both_add_con(grid, model, n1, n2):
    grid.add_connection(mk_con(grid, n1, n2))
    model.add_connection((n1, n2), **con_payload(n1, n2))


def partner(which):
    """Fixed partner grids for + and embed, built fresh for every use (the library shares objects)."""
    import t2grids
    g, m = t2grids.t2grid(), GridModel()
    P, Q = '  p 1', '  q 1'
    if which == 'P1':       # nothing in common with the universe
        both_add_rock(g, m, 'rockP')
        both_add_rock(g, m, 'rockQ')
        both_add_block(g, m, P, 'rockP')
        both_add_block(g, m, Q, 'rockQ')
        both_add_con(g, m, P, Q)
    elif which == 'P3':     # disjoint block names; registers rock1 (used by none of its own blocks) and rock2
        both_add_rock(g, m, 'rock1')
        both_add_rock(g, m, 'rock2')
        both_add_block(g, m, P, 'rock2')
        both_add_block(g, m, Q, 'rock2')
        both_add_con(g, m, P, Q)
    else:                   # P2: shares the block name '  d 1' (connected in the partner) and rock type rock1
        both_add_rock(g, m, 'rock1')
        both_add_block(g, m, UNI[3], 'rock1', volume=0.5)
        both_add_block(g, m, Q, 'rock1')
        both_add_con(g, m, UNI[3], Q)
    return g, m


_GEO = {}


def seed_geo(seed):
    if seed == 'transferred':
        seed = 'geo_atm0'
    if seed not in _GEO:
        import mulgrids
        with quiet():
            _GEO[seed] = mulgrids.mulgrid().rectangular([10., 20.], [30.], [5., 7.], atmos_type=int(seed[-1]))
    return _GEO[seed]


def build_seed(seed):
    import t2grids
    g, m = t2grids.t2grid(), GridModel()
    uni = UNI + [SPARE]
    a, b, c, d = UNI
    if seed == 'empty':
        pass
    elif seed in ('chain3', 'datfile'):
        both_add_rock(g, m, 'rock1')
        both_add_rock(g, m, 'rock2')
        for i, (n, r) in enumerate(((a, 'rock1'), (b, 'rock2'), (c, 'rock1'))):
            both_add_block(g, m, n, r, centre=[10. * i, 0., -5.] if seed == 'datfile' else None)
        both_add_con(g, m, a, b)
        both_add_con(g, m, b, c)
        if seed == 'datfile':
            import t2data
            with quiet():
                dat = t2data.t2data()
                dat.grid = g
                fn = os.path.join(core.scratch(), 'c08seed.dat')
                dat.write(fn)
                g = t2data.t2data(fn).grid
            for n in m.blocks:
                m.binfo[n]['centre'] = tuple(m.binfo[n]['centre'])
    elif seed == 'ring4':
        both_add_rock(g, m, 'rock1')
        both_add_rock(g, m, 'rock2')
        for n in UNI:
            both_add_block(g, m, n, 'rock1')
        for n1, n2 in ((a, b), (b, c), (d, c), (d, a)):
            both_add_con(g, m, n1, n2)
    elif seed.startswith('geo_atm'):
        with quiet():
            g = t2grids.t2grid().fromgeo(seed_geo(seed))
        m = model_from_grid(g)
        uni = [blk.name for blk in g.blocklist[:4]] + ['  z 9']
    elif seed == 'transferred':
        # the grid of a model that took its rock types from another model (t2data.transfer_from on the same
        # geometry): another documented route by which a user's grid comes into being
        import t2data
        geo = seed_geo('geo_atm0')
        with quiet():
            src = t2data.t2data()
            src.grid = t2grids.t2grid().fromgeo(geo)
            for r in ROCKS:
                src.grid.add_rocktype(t2grids.rocktype(name=r))
            for i, blk in enumerate(src.grid.blocklist[1:]):
                blk.rocktype = src.grid.rocktype[ROCKS[i % 2]]
            dat = t2data.t2data()
            dat.grid = t2grids.t2grid().fromgeo(geo)
            with core.timelimit(60):
                dat.transfer_from(src, geo, geo)
            g = dat.grid
        m = model_from_grid(g)
        uni = [blk.name for blk in g.blocklist[:4]] + ['  z 9']
    else:
        raise core.HarnessError('unknown seed %r' % seed)
    return State(seed, g, m, uni)


# ------------------------------------------------------------------------------------------------
# alphabet
# ------------------------------------------------------------------------------------------------
def rename_maps(present, uni, reduced):
    """Every one-to-one partial map on the universe whose image avoids present blocks that are not renamed."""
    pool = [n for n in uni if n in present]
    absent = [n for n in uni if n not in present]
    out = []
    if reduced:
        out.append([])
        for x, y in itertools.combinations(pool, 2):
            out.append([[x, y], [y, x]])
        for x, y, z in itertools.combinations(pool, 3):
            out.append([[x, y], [y, z], [z, x]])
        if absent and pool:
            out.append([[pool[i], (pool + absent)[i + 1]] for i in range(len(pool))])   # shift into the spare
            out.append([[pool[0], absent[0]]])
        return out
    for k in range(len(pool) + 1):
        for dom in itertools.combinations(pool, k):
            free = [n for n in uni if n not in present or n in dom]
            for img in itertools.permutations(free, k):
                out.append([list(p) for p in zip(dom, img)])
    if absent:
        out.append([[absent[0], absent[-1]]])                     # key that names no block: ignored
        if pool:
            out.append([[absent[0], absent[-1]], [pool[0], absent[0]]])
    return out


def map_class(pairs, present):
    eff = dict((k, v) for k, v in pairs if k in present)
    moved = dict((k, v) for k, v in eff.items() if k != v)
    if not moved:
        return 'fixed-points' if eff else 'no-block-renamed'
    best = 'fresh-targets'
    for k in moved:
        n, x = 0, moved[k]
        while x in moved and x != k and n <= len(moved):
            x, n = moved[x], n + 1
        if x == k:
            return 'swap' if n == 1 else 'cycle'
    if any(v in moved for v in moved.values()):
        best = 'chain-onto-renamed-name'
    return best


def block_perms(names, reduced):
    n = len(names)
    if n <= 4 and not reduced:
        return [list(p) for p in itertools.permutations(names)]
    out = [list(names), list(names[::-1]), list(names[1:]) + list(names[:1])]
    for i, j in itertools.combinations(range(n), 2):
        p = list(names)
        p[i], p[j] = p[j], p[i]
        out.append(p)
    return [p for i, p in enumerate(out) if p not in out[:i]]


def conn_lists(conns, reduced):
    """Complete connection name lists: order x reversal subset.  A pair is reversible when its reversed
    name is not another connection of the grid."""
    n = len(conns)
    rev_ok = [i for i, c in enumerate(conns) if c[::-1] not in conns]

    def render(order, revs):
        return [list(conns[i][::-1]) if i in revs else list(conns[i]) for i in order]
    out = []
    if n <= 3 and not reduced:
        for order in itertools.permutations(range(n)):
            for k in range(len(rev_ok) + 1):
                for revs in itertools.combinations(rev_ok, k):
                    out.append(render(order, revs))
        return out
    ident = list(range(n))
    out.append(render(ident, ()))
    for k in (1, 2):
        for revs in itertools.combinations(rev_ok, k):
            out.append(render(ident, revs))
    out.append(render(ident, rev_ok))
    out.append(render(ident[::-1], rev_ok))
    out.append(render(ident[::-1], ()))
    for i, j in itertools.combinations(range(n), 2):
        o = list(ident)
        o[i], o[j] = o[j], o[i]
        out.append(render(o, ()))
        if not reduced:
            out.append(render(o, [x for x in (i, j) if x in rev_ok]))
    return [p for i, p in enumerate(out) if p not in out[:i]]


def geo_compatible(state):
    """reorder(geo=) is meaningful when the grid holds every block and connection of the geometry (it may
    hold more, e.g. MINC matrix blocks: those are not named by the geometry's lists)."""
    if not (state.seed.startswith('geo_atm') or state.seed == 'transferred'):
        return False
    geo = seed_geo(state.seed)
    m = state.model
    return (all(n in m.binfo for n in geo.block_name_list) and
            all((tuple(c) in m.cinfo) != (tuple(c[::-1]) in m.cinfo) for c in geo.block_connection_name_list))


def minc_enabled(model, fractions, blocks, namefn=None):
    sel = list(model.blocks) if blocks is None else blocks
    new = []
    for b in sel:
        if b in model.binfo and 0. < model.binfo[b]['volume'] < 1.e25:
            for m in range(1, len(fractions)):
                new.append(namefn(b, m) if namefn else str(m) + b[len(str(m)):])
    return len(set(new)) == len(new) and not (set(new) & set(model.blocks))


def alt_name(state):
    """A name that differs from a universe name only in its first character, so that both get the same
    default MINC matrix block names."""
    return 'Z' + state.uni[1][1:]


def collide_name(name, level):
    """A matrix_blockname function that maps every block to the same name per level."""
    return '%dzz 1' % level


def minc_clash_ops(state, upres):
    """minc() calls whose selection produces the same matrix block name twice - the same block listed twice,
    two blocks differing only in the overwritten first character, a matrix_blockname function that maps two
    blocks to one name - or a name that exists already.  Documented: "Duplicate MINC matrix block name" error."""
    m = state.model
    fr = MINC_FRACTIONS[0]
    act = [n for n in upres if 0. < m.binfo[n]['volume'] < 1.e25]
    ops = []
    alt = alt_name(state)
    if alt in m.blocks and state.uni[1] in m.blocks:
        ops.append(['minc', fr, [state.uni[1], alt]])
    if act:
        ops.append(['minc', fr, [act[0], act[0]]])
    if len(act) > 1:
        ops.append(['minc', fr, [act[0], act[1]], 'collide'])
        ops.append(['minc', MINC_FRACTIONS[1], [act[-1], act[0], act[-1]]])
    for n in act[:1]:
        if ('1' + n[1:]) in m.blocks:
            ops.append(['minc', fr, [n]])
    return ops


def readd_ops(state):
    """Adding again the very object that was last deleted (to this grid, and a block also to a partner grid)."""
    if state.deleted is None:
        return []
    kind, o = state.deleted
    g, m = state.grid, state.model
    ops = []
    if kind == 'block':
        if g.rocktype.get(o.rocktype.name) is o.rocktype and (o.name not in m.blocks or not m.cons_of(o.name)):
            ops.append(['readd_block'])
        ops.append(['readd_block_to_partner'])
    elif kind == 'connection':
        if all(g.block.get(b.name) is b for b in o.block) and o.block[0] is not o.block[1]:
            ops.append(['readd_connection'])
    elif kind == 'rocktype':
        if o.name not in m.rocks or not m.rock_in_use(o.name):
            ops.append(['readd_rocktype'])
    return ops


T2STYLE, T2STYLE2 = '  1 5', '  2 5'       # TOUGH2-style spellings of '  105', '  205'


def t2style_renames(state):
    """Maps whose keys / values are spelt the TOUGH2 way (blank in column 4 between digits): rename_blocks
    fixes them by default, so the block takes (or is found under) the spelling with the zero."""
    m, uni = state.model, state.uni
    present = list(m.blocks)
    upres = [n for n in present if n in uni]
    fixed, fixed2 = fix_blockname(T2STYLE), fix_blockname(T2STYLE2)
    ops = []
    if upres and fixed not in present and T2STYLE not in present:
        ops.append(['rename_blocks', [[upres[0], T2STYLE]]])                  # value needs fixing
        ops.append(['t2data_rename_blocks', [[upres[-1], T2STYLE]], False])
        ops.append(['rename_blocks', [[upres[0], T2STYLE]], False])           # fix_blocknames=False: taken literally
    if fixed in present and fixed2 not in present:
        ops.append(['rename_blocks', [[T2STYLE, T2STYLE2]]])                  # key and value need fixing
        absent = [n for n in uni if n not in present]
        if absent:
            ops.append(['rename_blocks', [[T2STYLE, absent[0]]]])             # key needs fixing
    return ops


def partial_reorders(m):
    """reorder() with lists that do not name every block / connection."""
    ops = []
    bl, cn = list(m.blocks), [list(c) for c in m.conns]
    if len(bl) > 1:
        ops.append(['reorder', bl[:-1][::-1], None])
    if len(cn) > 1:
        ops.append(['reorder', None, cn[1:]])
        rev_ok = [i for i, c in enumerate(m.conns) if c[::-1] not in m.conns]
        if rev_ok:
            ops.append(['reorder', None, [cn[rev_ok[-1]][::-1]]])
    if len(bl) > 1:
        ops.append(['reorder', bl[-1:], None])
    return ops


def ops_of(state, depth, reduced=False):
    """Enabled operations, simplest first.  'reduced' shrinks the big argument domains (renames to
    transpositions / 3-cycles / shift-to-spare, permutations to transpositions) for a deeper level;
    reduced='tiny' is the last level: only the operations that consume derived state."""
    if reduced == 'tiny':
        return [['clean_rocktypes']] if state.model.rocks else [['check_fix']]
    if reduced:
        return ops_reduced(state)
    m, uni = state.model, state.uni
    present = list(m.blocks)
    upres = [n for n in present if n in uni]
    ops = []
    # rock types
    for r in ROCKS:
        if r not in m.rocks or not m.rock_in_use(r):
            ops.append(['add_rocktype', r])
    for r in m.rocks:
        if not m.rock_in_use(r):
            ops.append(['delete_rocktype', r])
    ops.append(['delete_rocktype', 'nosuc'])
    for old in sorted(set(m.rocks + ROCKS[:1])):
        for new in ROCKS + ['rock3']:
            if old != new and not (reduced and (old not in m.rocks or new in m.rocks)):
                ops.append(['rename_rocktype', old, new])
    ops.append(['clean_rocktypes'])
    ops.append(['read'])
    # blocks
    for n in uni[:4]:
        if n not in present or not m.cons_of(n):
            for r in m.rocks[:2]:
                ops.append(['add_block', n, r])
    for n in uni[:4]:
        if n in present and m.cons_of(n):             # a new object under the name of a connected block
            ops.append(['add_block', n, ([r for r in m.rocks if r != m.binfo[n]['rock']] + [m.binfo[n]['rock']])[0]])
    for n in upres:                                   # the very object that is already in the grid, added again
        ops.append(['add_same_block', n])
    for n in upres:
        ops.append(['delete_block', n])
    ops.append(['delete_block', '  x 7'])
    # connections
    pool = present if len(present) <= 5 else upres
    for n1, n2 in itertools.permutations(pool, 2):
        ops.append(['add_connection', n1, n2])
    for c in m.conns:
        ops.append(['delete_connection', c[0], c[1]])
    ops.append(['delete_connection', uni[0], '  x 7'])
    # order
    for n in upres:
        ops.append(['demote_block', [n]])
    for n1, n2 in itertools.permutations(upres, 2):
        ops.append(['demote_block', [n1, n2]])
    for n in upres:                                   # a name listed more than once: a repeated demotion
        ops.append(['demote_block', [n, n]])
    for n1, n2 in itertools.permutations(upres, 2):
        ops.append(['demote_block', [n1, n2, n1]])
    if present:
        for p in block_perms(present, reduced):
            ops.append(['reorder', p, None])
    if m.conns:
        cl = conn_lists(m.conns, reduced)
        for c in cl:
            ops.append(['reorder', None, c])
        ops.append(['reorder', present[::-1], cl[-1]])
    ops += partial_reorders(m)
    if geo_compatible(state):
        ops.append(['reorder_geo'])
    # rename
    for mp in rename_maps(present, uni, reduced):
        ops.append(['rename_blocks', mp])
    for mp in rename_maps(present, uni, True):
        ops.append(['t2data_rename_blocks', mp, False])
    ops += t2style_renames(state)
    if upres and SPARE not in present and uni[-1] not in present:
        ops.append(['t2data_rename_blocks', [[uni[-1], upres[0]]], True])          # inverted map
    # check, minc
    ops.append(['check_fix'])
    if upres:
        subsets = [None] + [list(s) for k in range(1, len(upres) + 1) for s in itertools.combinations(upres, k)]
        if reduced:
            subsets = [None] + [[n] for n in upres]
        for fr in MINC_FRACTIONS:
            for s in subsets:
                if minc_enabled(m, fr, s):
                    ops.append(['minc', fr, s])
        ops += minc_clash_ops(state, upres)
    ops += readd_ops(state)
    alt = alt_name(state)
    if alt not in present:
        for r in m.rocks[:1]:
            ops.append(['add_block', alt, r])
    # + and embed
    for which in ('P1', 'P2', 'P3'):
        pg, pm = PARTNER_MODELS[which]
        if all(not m.cons_of(n) for n in pm.blocks if n in present):
            ops.append(['plus', which])
    for host in upres:
        ops.append(['embed', 'P1', host])
        ops.append(['embed', 'P3', host])
    return ops


def ops_reduced(state):
    """The alphabet of the deepest level: every operation kind that touches names or back-references,
    argument domains cut down (each block / connection once, transpositions, one 3-cycle, shift into the
    spare, single reversals)."""
    m, uni = state.model, state.uni
    present = list(m.blocks)
    upres = [n for n in present if n in uni]
    ops = []
    for old in m.rocks[:1]:
        for new in ROCKS + ['rock3']:
            if new not in m.rocks:
                ops.append(['rename_rocktype', old, new])
                break
    ops.append(['clean_rocktypes'])
    ops.append(['read'])
    for n in uni[:4]:
        if n not in present and m.rocks:
            ops.append(['add_block', n, m.rocks[0]])
            break
    for n in uni[:4]:
        if n in present and m.cons_of(n):
            ops.append(['add_block', n, m.rocks[-1]])
            break
    for n in [x for x in upres if m.cons_of(x)][:1] + [x for x in upres if not m.cons_of(x)][:1]:
        ops.append(['add_same_block', n])
    for n in upres:
        ops.append(['delete_block', n])
    if len(present) > 1:
        ops.append(['add_connection', present[0], present[-1]])
    if m.conns:
        ops.append(['add_connection', m.conns[0][1], m.conns[0][0]])
    for c in m.conns:
        ops.append(['delete_connection', c[0], c[1]])
    if upres:
        ops.append(['demote_block', [upres[0]]])
        ops.append(['demote_block', [upres[-1], upres[0], upres[-1]]])
    if len(present) > 1:
        ops.append(['reorder', present[::-1], None])
    if m.conns:
        rev_ok = [i for i, c in enumerate(m.conns) if c[::-1] not in m.conns]
        for i in rev_ok:
            ops.append(['reorder', None, [list(c[::-1]) if j == i else list(c) for j, c in enumerate(m.conns)]])
        if len(m.conns) > 1:
            ops.append(['reorder', present[::-1], [list(c[::-1]) if j in rev_ok else list(c)
                                                   for j, c in enumerate(m.conns)][::-1]])
    ops += partial_reorders(m)[:2]
    if geo_compatible(state):
        ops.append(['reorder_geo'])
    maps = [mp for mp in rename_maps(present, uni, True) if mp]
    cyc3 = [mp for mp in maps if len(mp) == 3 and mp[0][0] == mp[2][1]]
    for mp in maps:
        if mp not in cyc3[1:]:
            ops.append(['rename_blocks', mp])
    for mp in maps[:1] + maps[-2:-1]:
        ops.append(['t2data_rename_blocks', mp, False])
    ops += [o for o in t2style_renames(state) if o[0] == 'rename_blocks' and len(o) == 2]
    ops.append(['check_fix'])
    for s in [[n] for n in upres[:1]]:
        if minc_enabled(m, MINC_FRACTIONS[1], s):
            ops.append(['minc', MINC_FRACTIONS[1], s])
    ops += minc_clash_ops(state, upres)[:2]
    ops += readd_ops(state)
    for which in ('P1', 'P3'):
        pg, pm = PARTNER_MODELS[which]
        if all(not m.cons_of(n) for n in pm.blocks if n in present):
            ops.append(['plus', which])
    for host in upres[:1]:
        ops.append(['embed', 'P3', host])
    return ops


class _Lazy(dict):
    def __missing__(self, k):
        self[k] = partner(k)
        return self[k]


PARTNER_MODELS = _Lazy()


def common_rock_in_use(model, which):
    """The partner registers a rock type name that blocks of the grid use."""
    return any(r in model.rocks and model.rock_in_use(r) for r in PARTNER_MODELS[which][1].rocks)


def reorder_partial(m, op):
    return bool((op[1] and len(op[1]) < len(m.blocks)) or (op[2] and len(op[2]) < len(m.conns)))


def op_class(state, op):
    """Input class of an operation for the violation signature (computed on the state BEFORE the call)."""
    m = state.model
    k = op[0]
    if k in ('rename_blocks', 't2data_rename_blocks'):
        mp = op[1]
        if k == 't2data_rename_blocks' and op[2]:
            mp = [[v, key] for key, v in mp]
        literal = k == 'rename_blocks' and len(op) > 2 and op[2] is False
        t2 = any(fix_blockname(x) != x for pr in mp for x in pr)
        if not literal:
            mp = [[fix_blockname(a), fix_blockname(b)] for a, b in mp]
        return map_class(mp, m.blocks) + ('-tough2-style-names' + ('-unfixed' if literal else '') if t2 else '')
    if k == 'reorder':
        parts = []
        if op[1]:
            parts.append('blocks')
        if op[2]:
            parts.append('connections-reversed' if any(tuple(c) not in m.cinfo for c in op[2]) else 'connections')
        return '+'.join(parts) + ('-incomplete-list' if reorder_partial(m, op) else '')
    if k == 'reorder_geo':
        geo = seed_geo(state.seed)
        return 'grid-holds-more-than-the-geometry' if (len(geo.block_name_list) < len(m.blocks) or
                                                       len(geo.block_connection_name_list) < len(m.conns)) else 'any'
    if k == 'add_same_block':
        return 'connected' if m.cons_of(op[1]) else 'unconnected'
    if k == 'add_block':
        return ('replace-connected' if m.cons_of(op[1]) else 'replace-unconnected') if op[1] in m.blocks else 'new'
    if k == 'delete_block':
        return 'absent' if op[1] not in m.blocks else ('connected' if m.cons_of(op[1]) else 'unconnected')
    if k == 'add_connection':
        c = (op[1], op[2])
        return 'replace' if c in m.cinfo else ('antiparallel' if c[::-1] in m.cinfo else 'new')
    if k == 'delete_connection':
        return 'present' if (op[1], op[2]) in m.cinfo else 'absent'
    if k == 'add_rocktype':
        return 'replace-unused' if op[1] in m.rocks else 'new'
    if k == 'delete_rocktype':
        return 'unused' if op[1] in m.rocks else 'absent'
    if k == 'rename_rocktype':
        return 'documented-error' if (op[1] not in m.rocks or op[2] in m.rocks) else (
            'in-use' if m.rock_in_use(op[1]) else 'unused')
    if k == 'demote_block':
        return '%d-names%s' % (len(op[1]), '-repeated' if len(set(op[1])) < len(op[1]) else '')
    if k == 'minc':
        clash = not minc_enabled(m, op[1], op[2], collide_name if len(op) > 3 else None)
        return '%d-levels-%s%s' % (len(op[1]), 'all' if op[2] is None else 'selection',
                                   '-duplicate-matrix-name' if clash else '')
    if k.startswith('readd'):
        return 'after-delete' 
    if k == 'plus':
        return 'partner-' + op[1] + ('-overlap' if set(PARTNER_MODELS[op[1]][1].blocks) & set(m.blocks) else '') + \
            ('-common-rocktype-in-use' if common_rock_in_use(m, op[1]) else '')
    if k == 'embed':
        sub = PARTNER_MODELS[op[1]][1]
        if set(sub.blocks) & set(m.blocks):
            return 'refused-common-names'
        return ('fits' if sum(sub.binfo[b]['volume'] for b in sub.blocks) < m.binfo[op[2]]['volume'] else 'refused-host-too-small') + \
            ('-common-rocktype-in-use' if common_rock_in_use(m, op[1]) else '')
    return 'any'


# ------------------------------------------------------------------------------------------------
# one transition
# ------------------------------------------------------------------------------------------------
def t2data_wrapper(grid, model, uni):
    """A t2data object around the grid with every name-bearing side list filled."""
    import t2data
    dat = t2data.t2data()
    dat.grid = grid
    for n in model.blocks:
        dat.incon[n] = [None, [1.e5, 20.]]
        dat.add_generator(t2data.t2generator(name='g' + n[1:], block=n))
    dat.history_block = list(model.blocks)
    dat.history_connection = [tuple(c) for c in model.conns]
    dat.history_generator = list(model.blocks)
    if model.blocks:
        dat.parameter['print_block'] = model.blocks[0]
    return dat


def do_reads(g):
    """The documented read-only queries of a grid (they may fill private caches; they must change nothing)."""
    names = [rt.name for rt in g.rocktypelist] + ['nosuc']
    return repr([g.num_blocks, g.num_connections, g.num_rocktypes, g.num_atmosphere_blocks, g.num_underground_blocks,
                 g.rocktype_frequencies, [g.rocktype_frequency(n) for n in names], sorted(g.unconnected_blocks),
                 sorted(g.isolated_rocktype_blocks), [int(i) for i in g.rocktype_indices], g.check(fix=False, silent=True),
                 [g.block_index(b.name) for b in g.blocklist], [g.connection_index(k) for k in g.connection],
                 g.block_centres_defined, repr(g)])


def apply_impl(state, op):
    """Executes op on the real grid; may replace state.grid.  Returns (result, operands) where operands
    are other real grids that the call must have left consistent."""
    import t2grids
    g = state.grid
    k = op[0]
    if k == 'add_rocktype':
        g.add_rocktype(t2grids.rocktype(name=op[1]))
    elif k == 'delete_rocktype':
        if op[1] in g.rocktype:
            state.deleted = ('rocktype', g.rocktype[op[1]])
        g.delete_rocktype(op[1])
    elif k == 'rename_rocktype':
        g.rename_rocktype(op[1], op[2])
    elif k == 'clean_rocktypes':
        g.clean_rocktypes()
    elif k == 'add_block':
        g.add_block(mk_block(g, op[1], op[2], volume=vol_of(op[1]) * (1.5 if op[1] in g.block else 1.0)))
    elif k == 'add_same_block':
        g.add_block(g.block[op[1]])
    elif k == 'delete_block':
        if op[1] in g.block:
            state.deleted = ('block', g.block[op[1]])
        g.delete_block(op[1])
    elif k == 'add_connection':
        g.add_connection(mk_con(g, op[1], op[2]))
    elif k == 'delete_connection':
        if (op[1], op[2]) in g.connection:
            state.deleted = ('connection', g.connection[(op[1], op[2])])
        g.delete_connection((op[1], op[2]))
    elif k == 'demote_block':
        g.demote_block(op[1][0] if len(op[1]) == 1 else list(op[1]))
    elif k == 'reorder':
        g.reorder(block_names=op[1], connection_names=None if op[2] is None else [tuple(c) for c in op[2]])
    elif k == 'reorder_geo':
        g.reorder(geo=seed_geo(state.seed))
    elif k == 'rename_blocks':
        if len(op) > 2 and op[2] is False:
            g.rename_blocks(dict((a, b) for a, b in op[1]), fix_blocknames=False)
        else:
            g.rename_blocks(dict((a, b) for a, b in op[1]))
    elif k == 't2data_rename_blocks':
        dat = t2data_wrapper(g, state.model, state.uni)
        dat.rename_blocks(dict((a, b) for a, b in op[1]), invert=op[2])
        return ('t2data', dat), []
    elif k == 'read':
        return [do_reads(g), do_reads(g)], []
    elif k == 'check_fix':
        return g.check(fix=True, silent=True), []
    elif k == 'minc':
        kw = {'matrix_blockname': collide_name} if len(op) > 3 else {}
        return g.minc(list(op[1]), blocks=None if op[2] is None else list(op[2]), **kw), []
    elif k == 'readd_block':
        g.add_block(state.deleted[1])
    elif k == 'readd_block_to_partner':
        pg, pm = t2grids.t2grid(), GridModel()          # another (empty) grid
        blk = state.deleted[1]
        pg.add_rocktype(blk.rocktype)
        pg.add_block(blk)
        pm.add_rocktype(blk.rocktype.name)
        pm.add_block(blk.name, blk.rocktype.name, num(blk.volume))
        return None, [('partner-grid', pg, pm)]
    elif k == 'readd_connection':
        g.add_connection(state.deleted[1])
    elif k == 'readd_rocktype':
        g.add_rocktype(state.deleted[1])
    elif k == 'plus':
        pg, pm = partner(op[1])
        state.grid = g + pg
        return None, [('left', g, state.model.copy()), ('right', pg, pm)]
    elif k == 'embed':
        pg, pm = partner(op[1])
        con = mk_con(g, op[2], pm.blocks[0], blocks=[g.block[op[2]], pg.block[pm.blocks[0]]])
        res = g.embed(pg, con)
        if res is not None:
            state.grid = res
        return res, [('host-grid', g, state.model.copy()), ('subgrid', pg, pm)]
    else:
        raise core.HarnessError('unknown op %r' % (op,))
    return None, []


def apply_model(state, op, result, notes):
    """Executes op on the reference model.  May raise ModelError (documented error).  Returns extra
    violations (clause, detail) that concern the call's result rather than the grid."""
    m = state.model
    k = op[0]
    extra = []
    if k == 'add_rocktype':
        m.add_rocktype(op[1])
    elif k == 'delete_rocktype':
        m.delete_rocktype(op[1])
    elif k == 'rename_rocktype':
        m.rename_rocktype(op[1], op[2])
    elif k == 'clean_rocktypes':
        m.clean_rocktypes()
    elif k == 'add_block':
        m.add_block(op[1], op[2], vol_of(op[1]) * (1.5 if op[1] in m.blocks else 1.0))
    elif k == 'add_same_block':
        pass                                        # replacing a block by itself changes nothing
    elif k == 'delete_block':
        m.delete_block(op[1])
    elif k == 'add_connection':
        m.add_connection((op[1], op[2]), **con_payload(op[1], op[2]))
    elif k == 'delete_connection':
        m.delete_connection((op[1], op[2]))
    elif k == 'demote_block':
        m.demote_block(list(op[1]))
    elif k == 'reorder':
        m.reorder(op[1], op[2])
    elif k == 'reorder_geo':
        geo = seed_geo(state.seed)
        m.reorder(list(geo.block_name_list), [tuple(c) for c in geo.block_connection_name_list])
    elif k == 'rename_blocks':
        m.rename_blocks(dict((a, b) for a, b in op[1]), fix_blocknames=not (len(op) > 2 and op[2] is False))
    elif k == 't2data_rename_blocks':
        mp = dict((a, b) for a, b in op[1])
        if op[2]:
            mp = dict((v, key) for key, v in mp.items())
        before = list(m.blocks)
        m.rename_blocks(mp)
        if result is not None and notes is not None:
            dat = result[1]
            want = sorted(mp.get(n, n) for n in before)
            if sorted(dat.incon.keys()) != want:
                notes['t2data-incon-keys-differ-from-renamed-blocks'] += 1
            if sorted(gen.block for gen in dat.generatorlist) != want or \
                    sorted(kk[0] for kk in dat.generator) != want:
                notes['t2data-generator-blocks-differ-from-renamed-blocks'] += 1
            if sorted(dat.history_block) != want:
                notes['t2data-history-blocks-differ-from-renamed-blocks'] += 1
    elif k == 'read':
        if result is not None and result[0] != result[1]:
            extra.append(('read-not-repeatable', 'the same read-only queries gave %s and then %s' % (result[0], result[1])))
    elif k == 'check_fix':
        ok, iso = m.check_fix()
        after = dict((b.name, b.rocktype.name) for b in state.grid.blocklist)
        if sorted(after) == sorted(m.blocks):
            bad = m.check_fix_adopt(iso, after)
            if bad:
                extra.append(('check-fix-rocktype', 'after check(fix=True) blocks %r have rock types %r, not allowed by '
                              'the neighbours\' rock types' % (bad, [after[b] for b in bad])))
    elif k == 'minc':
        kw = {'matrix_blockname': collide_name} if len(op) > 3 else {}
        m.minc(list(op[1]), None if op[2] is None else list(op[2]), **kw)
    elif k == 'readd_block':
        o = state.deleted[1]
        m.add_block(o.name, o.rocktype.name, num(o.volume))
    elif k == 'readd_connection':
        o = state.deleted[1]
        m.add_connection((o.block[0].name, o.block[1].name), [num(x) for x in o.distance], num(o.area), num(o.dircos), o.direction)
    elif k == 'readd_rocktype':
        m.add_rocktype(state.deleted[1].name)
    elif k == 'plus':
        state.model = m.plus(partner_model(op[1]))
    elif k == 'embed':
        pm = partner_model(op[1])
        p = con_payload(op[2], pm.blocks[0])
        r = m.embed(pm, (op[2], pm.blocks[0]), p['d'], p['area'], p['dircos'], p['direction'])
        if (r is None) != (result is None):
            extra.append(('embed-refusal', 'embed returned %s, the reference %s' % (
                'None' if result is None else 'a grid', 'refuses (None)' if r is None else 'embeds')))
        if r is not None:
            state.model = r
    return extra


def partner_model(which):
    return PARTNER_MODELS[which][1].copy()


def step(state, op, notes=None, rec=None):
    """Engine-facing: violations of the successor state block its expansion; violations that concern the
    operand grids of + / embed (not the successor) are recorded and the successor is still explored."""
    state.hist.append(op)
    viol, side = step2(state, op, notes)
    if rec is not None:
        for sg, what in side:
            rec.violation(sg, what, {'seed': state.seed, 'ops': list(state.hist)})
        return viol
    return viol + side


def step2(state, op, notes=None):
    cls = op_class(state, op)
    site = op[0].replace('t2data_rename_blocks', 't2data.rename_blocks')

    def sig(clause):
        return 'C08|%s|%s|%s' % (site, clause, cls)
    err = None
    result, operands = None, []
    was_alias = state.alias
    if op[0] in ('plus', 'embed') and common_rock_in_use(state.model, op[1]):
        state.alias = True
    with quiet():
        try:
            result, operands = apply_impl(state, op)
        except (core.CaseTimeout, core.HarnessError):
            raise
        except Exception as e:
            err = e
    if err is not None and op[0] == 'reorder' and reorder_partial(state.model, op):
        # the documentation is silent on incomplete lists: refusing them is as good as keeping the unnamed
        # objects, provided the grid is left as it was (judged below against the untouched model)
        op, err = ['reorder', None, None], None
    try:
        extra = apply_model(state, op, None if err else result, notes)
    except ModelError:
        if err is None:
            return [(sig('documented-error-not-raised'), '%r returned normally; the documentation says it raises' % (op,))], []
        extra, err = [], None
        if op[0] == 'minc':
            # the documented refusal may come after part of the work is done (what is left is not specified), but
            # the grid must be consistent; exploration continues from whatever the real grid holds
            bad = invariant(state.grid, identity=not state.alias)
            if bad:
                return [(sig('after-refusal:' + bad[0]), '%s (after %r raised the documented error)' % (bad[1], op))], []
            state.model = model_from_grid(state.grid)
            return [], []
    else:
        if err is not None:
            return [(sig('raises:' + type(err).__name__), '%r raised %r' % (op, err))], []
    side = []
    for role, g, m in operands:
        bad = invariant(g, identity=not (was_alias and role in ('left', 'host-grid'))) or refinement(g, m)
        if bad:
            side.append((sig('operand-' + role + ':' + bad[0]), 'the %s operand of %r is left changed or inconsistent: %s'
                         % (role, op, bad[1])))
    bad = invariant(state.grid, identity=not state.alias) or refinement(state.grid, state.model)
    if bad:
        return [(sig(bad[0]), '%s (after %r)' % (bad[1], op))], side
    return [(sig(c), '%s (after %r)' % (w, op)) for c, w in extra[:1]], side


# ------------------------------------------------------------------------------------------------
# work units
# ------------------------------------------------------------------------------------------------
def plan(tier):
    """(seed, full-alphabet depth, reduced-alphabet levels, last 'consumer' levels, chunks of the first level).
    C08_DEV_PLAN=mini (development only, never used by the registered commands) shrinks the plan so that a
    mutant can be screened in seconds."""
    if os.environ.get('C08_DEV_PLAN') == 'mini':
        return [('empty', 3, 0, 0, 2)] + [(s, 1, 0, 0, 2) for s in SEEDS]
    if tier == 'quick':
        return [('empty', 3, 1, 0, 4)] + [(s, 1, 1, 1, 8) for s in SEEDS]
    return [('empty', 4, 0, 1, 8)] + [(s, 2, 1, 0, 24) if s in DEEP_SEEDS else (s, 2, 0, 1, 24) for s in SEEDS]


DEEP_SEEDS = ('chain3', 'ring4', 'datfile')


def units(tier):
    us = []
    for seed, dfull, dred, dtiny, nch in plan(tier):
        for i in range(nch):
            us.append((seed, dfull, dred, dtiny, i, nch))
    return us


def run_unit(unit, tier, rec):
    seed, dfull, dred, dtiny, ci, nch = unit
    st = build_seed(seed)
    n0 = len(list(ops_of(st, 0)))
    first = set(i for i in range(n0) if i % nch == ci)
    from collections import Counter
    notes = Counter()

    def state_check(s):
        bad = invariant(s.grid) or refinement(s.grid, s.model)
        return [('C08|seed:%s|%s|seed' % (seed, bad[0]), bad[1])] if bad else []

    if state_check(st):
        # an inconsistent seed is the finding of whatever built it; nothing is explored from an error state
        if ci == 0:
            for sg, what in state_check(st):
                rec.violation(sg, what, {'seed': seed, 'ops': []})
            rec.state(core.h64(canon(st)))
            rec.transition()
            rec.sample({'seed': seed, 'ops': [], 'note': 'seed inconsistent, not explored'}, force=True)
        rec.count('seed_inconsistent:' + seed)
        return
    engine_seq.bfs(rec, ID, seed, st, lambda s, d: ops_of(s, d, reduced=False if d < dfull else (True if d < dfull + dred else 'tiny')),
                   lambda s, op: step(s, op, notes, rec), canon, dfull + dred + dtiny, first_ops=first,
                   state_check=state_check if ci == 0 else None)
    for k, v in notes.items():
        rec.count('observed:' + k, v)
    rec.count('first_level_ops:' + seed, len(first))


def finalize(rec, tier):
    obs = dict((k, v) for k, v in rec.counters.items() if k.startswith('observed:'))
    return {'seeds': ['empty'] + SEEDS,
            'per_seed_plan': [{'seed': s, 'depth_full_alphabet': a, 'extra_levels_reduced_alphabet': b, 'extra_levels_consumers_only': t} for s, a, b, t, n in plan(tier)],
            'not_asserted_observations': obs}


def replay(case):
    st = build_seed(case['seed'])
    ops = case.get('ops') or []
    if not ops:
        bad = invariant(st.grid) or refinement(st.grid, st.model)
        return [('C08|seed:%s|%s|seed' % (case['seed'], bad[0]), bad[1])] if bad else []
    for op in ops[:-1]:
        step(st, op)
    return step(st, ops[-1])
