"""C04 - the TOUGH2 grid built from a geometry (t2grid().fromgeo(geo, blockmap)) is geometrically exact and
index-consistent.

Space: a family of geometries (rectangular 1..3 x 1..3 x 2..4 with unequal spacings and a non-zero origin;
two hand-made irregular meshes - triangle/quad/pentagon with one recorded column centre, and triangle/quad;
the shipped g7 and refinements; the other shipped geometries as they are), each also rotated by 90 and 30
degrees, translated and tilted, crossed with atmosphere type x naming convention x block order x
permeability angle x block mapping, and with column surfaces drawn from a 6-value alphabet placed on the
layer structure (complete product for <= 4 columns, otherwise a base plus all combinations of <= k columns
deviating).

Oracle: the property statement, evaluated against ref/geo_c04.py (exact Fraction arithmetic on the raw
node / column / layer / surface data; no mulgrid method is used by the reference).
"""
import contextlib
import io
import itertools
import os
import traceback

from mc import core
from ref import geo_c04 as R

ID = 'C04'
LEVEL = 'exploration'
ENGINE = 'E2'
EXHAUSTIVE = True
RULE = ('every (geometry, naming, transform) of the stated family x atmosphere type x block order x permeability '
        'angle x block mapping x route by which the options were reached x surface assignment (6-value alphabet per column: above the top layer, = top, '
        'inside layer 1, = bottom of layer 1, inside layer 2, just above the top of the bottom layer; complete product '
        'for <= 4 columns, else base + all <= k deviating columns); one case = one fromgeo call, every block and '
        'connection of the resulting grid compared with the exact reference; a case is non-trivial when the grid has '
        'at least two blocks and one connection; distinct = distinct (geometry, naming, transform, options, surfaces)')
ASSUMPTIONS = [
    'a valid geometry is one built the way read()/rectangular() build it: nodes, columns, connections, '
    'identify_neighbours, layers with tops identified, surfaces with set_column_num_layers, then '
    'setup_block_name_index and setup_block_connection_name_index (the harness calls these after setting surfaces)',
    'column centre = the centre recorded in the geometry when centre_specified, otherwise the area centroid of the '
    'column polygon (mulformat.rst: "calculate it as the centroid of the column")',
    'block centre elevation = the documented rule of block_centre: the layer centre as recorded (also when it is not '
    'the mid-point), except for a surface block whose column surface is LOWER than the layer top (mid-way between layer '
    'bottom and surface); a column surface exactly at a layer top gives a full block at the layer centre, so two full '
    'blocks of one layer are at equal elevation',
    'block order dmplex is explored only for geometries of 3- and 4-sided columns (documented restriction)',
    'convention 1 (2-character column names) is explored only for geometries of <= 99 columns and nodes',
    'names whose junction triggers the blank -> zero repair of block_name(): conventions 0 and 3 with numeric column names '
    'and layers \' d\', convention 1 with layer names ending in a digit and columns \' d\'; under convention 2 the repaired '
    'positions all lie inside the 3-digit column name, which would have to be \'d d\' - not a number, not explored',
    'gravity cosines of tilted geometries (gdcx, gdcy non-zero) are not asserted; everything else is',
    'permeability direction: ties of the two horizontal components within 1e-9 are accepted either way',
    'comparison tolerance 1e-9 relative against the exact reference (1e-9 absolute for a cosine that is exactly 0)',
    'refined geometries are rebuilt from their canonical (name-free, coordinate-sorted) raw data so that the set-order '
    'dependent names chosen by refine() do not enter the explored set',
    'routes: a geometry whose atmosphere type, block order or convention was changed by plain property assignment '
    '(or that was written and read back) is valid as the library left it - the harness makes no refreshing call after '
    'the assignment; convention is re-assigned only 0 -> 3 (the only pair with compatible column and layer names)',
    'announced order of the underground blocks is also compared with the documented orderings (layer then column; '
    'dmplex: four-sided columns first, then three-sided, each by layer then column)',
    'histories (seventh round): the edit alphabet also holds edits of the layer structure and of the names - layers '
    'replaced by add_layers() with the top half a first layer higher (old top inside the new first layer / on its '
    'bottom), lower, or unchanged, followed by set_column_num_layers for every column and the two set-up calls; '
    'copy_layers_from() a geometry with a higher / lower top; rename_layer() swapping two layers, cycling all '
    'underground layers, giving the first or the atmosphere layer an unused name; rename_column() swapping two, cycling '
    'all, one unused name; refine_layers() of all / the first layer / the last by 3; every surface re-assigned (mixed, '
    'all lowered) and the indexes rebuilt; fit_surface() to one datum per column and the indexes rebuilt; translate() '
    'in z only.  Every history is run on an object converted once before the edit and on one never converted; it starts '
    'from surfaces assigned through the surface setter (all = top, mixed) and - layer / name / surface edits only - from '
    'surfaces exactly as the constructor left them (never assigned; one column lowered).  After the edit the '
    'geometry is also written and read back and the copy converted: that grid is judged against the raw data of the '
    'copy, and where the copy holds the same raw data as the edited object (names, coordinates, layers, surfaces, '
    'options) the two grids must agree within the tolerance; a copy that cannot be written / read or holds other data '
    '(numbers rounded by the file format; surfaces the writer leaves out) is judged on its own only',
    'histories: convert, apply one edit (split_column, column centre re-specified with centre_specified set, one node '
    'moved followed by the get_area / centroid refresh optimize() performs, rotate, translate, a surface set and the '
    'indexes rebuilt, snap_columns_to_layers, refine of one column), convert again; the second grid is judged against the '
    'reference rebuilt from the edited object; an edit that raises or leaves columns that do not share edges is not '
    'judged here (C10/C11); two conversions without an edit must give identical grids and leave geometry and block map '
    'unchanged',
    'reference trusted: ref/geo_c04.py']

XS = [1.25, 2.5, 0.75]
YS = [2.0, 1.5, 3.25]
ZS = [1.0, 2.5, 1.5, 2.0]
ORIGIN = [10.5, -3.25, 7.0]
ANGLES = (0.0, 30.0, 90.0)
SHIFT = [-37.25, 112.5, -20.5]
TILTS = {'tiltx': (0.1, 0.0), 'tilty': (0.0, 0.2)}
TRANSFORMS = ('id', 'rot90', 'rot30', 'shift', 'tiltx', 'tilty')
CENTRES = ('off1', 'off2', 'off3', 'off4', 'offall')
SCALES = (1e-4, 1e-3, 1e-2, 1e2, 1e4)     # length scales: edges of 0.075 mm ... 25 km (1e-3 straddles 1 mm)
Z0S = (0.0, 0.5, 1.0, 2.0, 3.5, -2.0)      # vertical origins: an exact 0.0 at the top, inside layer 1, at its bottom,
                                            # inside layer 2, at its bottom, above the top layer
RTOL = 1e-9
CASE_SECONDS = 120

MIX = {
    'nodes': [(0.0, 0.0), (3.1, 0.0), (6.5, 0.2), (0.0, 2.5), (2.75, 2.25), (6.5, 3.0), (0.15, 5.5),
              (3.5, 6.5), (6.5, 6.0), (1.0, 8.05), (6.0, 8.25)],
    'cols': [([0, 1, 4, 3], None), ([1, 2, 5, 4], (4.6, 1.4)), ([6, 4, 3], None), ([4, 5, 8, 7, 6], None),
             ([6, 7, 9], None), ([7, 8, 10], None)],
    'cons': [(0, 1), (2, 0), (1, 3), (3, 2), (3, 4), (5, 3)],
    'top': 12.5, 'bottoms': [10.3, 7.0, 2.8]}
TQ = {
    'nodes': [(0.0, 0.0), (2.2, 0.0), (4.05, 0.3), (0.0, 1.9), (2.0, 2.1), (4.3, 2.4), (1.1, 4.0)],
    'cols': [([0, 1, 4, 3], None), ([1, 2, 5, 4], None), ([3, 4, 6], None), ([4, 5, 6], None)],
    'cons': [(0, 1), (0, 2), (3, 1), (2, 3)],
    'top': 5.0, 'bottoms': [4.0, 2.5, 0.3, -2.1]}


# ---------------------------------------------------------------------------------------------------------
# building geometries

def quiet():
    return contextlib.redirect_stdout(io.StringIO())


def letters(n):
    s = ''
    while n > 0:
        n -= 1
        s = chr(97 + n % 26) + s
        n //= 26
    return s


def naming_convention(naming):
    return int(naming[-1]) if naming.startswith('lib') else int(naming[1])


def names_for(naming, ncol, nnode, nlay):
    """Column, node and layer names (layer 0 = atmosphere layer) of my own naming schemes, or None when the
    convention cannot hold the geometry."""
    conv = naming_convention(naming)
    if naming in ('c0d', 'c3d') or conv == 2:
        w = 3
        if max(ncol, nnode) > 999:
            return None
        cn = [str(i + 1).rjust(w) for i in range(ncol)]
        nn = [str(i + 1).rjust(w) for i in range(nnode)]
    elif conv == 1:
        if max(ncol, nnode) > 99:
            return None
        cn = [str(i + 1).rjust(2) for i in range(ncol)]
        nn = [str(i + 1).rjust(2) for i in range(nnode)]
    else:
        if max(ncol, nnode) > 26 ** 3:
            return None
        cn = [letters(i + 1).rjust(3) for i in range(ncol)]
        nn = [letters(i + 1).rjust(3) for i in range(nnode)]
    if conv == 0 or naming == 'c3d':
        # (c0d, c3d: a column name ending in a digit followed by a layer name ' d' - block_name() turns the blank
        # at the junction into a zero, TOUGH2 reading names as (a3, i2))
        if nlay > 99:
            return None
        ln = [' 0'] + [str(k).rjust(2) for k in range(1, nlay + 1)]
    elif naming == 'c1d':
        # convention 1 counterpart: a layer name ending in a digit followed by a column name ' d'
        if nlay > 9:
            return None
        ln = ['atm'] + [' L%d' % k for k in range(1, nlay + 1)]
    elif conv == 1:
        ln = ['atm'] + [letters(k).rjust(3) for k in range(1, nlay + 1)]
    elif conv == 2:
        ln = ['at'] + [letters(k).rjust(2) for k in range(1, nlay + 1)]
    else:
        ln = [' 0'] + [letters(k).rjust(2) for k in range(1, nlay + 1)]
    return cn, nn, ln


def build_from_spec(spec, naming):
    """A mulgrid assembled through the public constructors, in the order read() uses."""
    import numpy as np
    import mulgrids
    nm = names_for(naming, len(spec['cols']), len(spec['nodes']), len(spec['bottoms']))
    if nm is None:
        return None
    cn, nn, ln = nm
    geo = mulgrids.mulgrid(type='GENER', convention=naming_convention(naming), atmos_type=2)
    for i, (x, y) in enumerate(spec['nodes']):
        geo.add_node(mulgrids.node(nn[i], np.array([float(x), float(y)])))
    for i, (ring, centre) in enumerate(spec['cols']):
        c = None if centre is None else np.array([float(centre[0]), float(centre[1])])
        geo.add_column(mulgrids.column(cn[i], [geo.node[nn[j]] for j in ring], centre=c))
    for (i, j) in spec['cons']:
        geo.add_connection(mulgrids.connection([geo.column[cn[i]], geo.column[cn[j]]]))
    geo.identify_neighbours()
    top = float(spec['top'])
    geo.add_layer(mulgrids.layer(ln[0], top, top))
    prev = top
    for k, b in enumerate(spec['bottoms']):
        b = float(b)
        geo.add_layer(mulgrids.layer(ln[k + 1], b, 0.5 * (b + prev)))
        prev = b
    geo.identify_layer_tops()
    geo.set_default_surface()
    for col, s in zip(geo.columnlist, spec.get('surfaces') or []):
        if s is not None:
            col.surface = float(s)
            geo.set_column_num_layers(col)
    geo.setup_block_name_index()
    geo.setup_block_connection_name_index()
    return geo


def spec_from_geo(geo):
    """Canonical, name-free raw data of a geometry: nodes sorted by position, columns by their sorted node
    positions, rings rotated to start at their lowest node, connections sorted (every third one reversed so
    that both orientations occur)."""
    nodes = sorted(geo.nodelist, key=lambda n: (float(n.pos[0]), float(n.pos[1])))
    nidx = dict((n.name, i) for i, n in enumerate(nodes))

    def ring(col):
        r = [nidx[n.name] for n in col.node]
        k = r.index(min(r))
        return r[k:] + r[:k]
    cols = sorted(geo.columnlist, key=lambda c: sorted(nidx[n.name] for n in c.node))
    cidx = dict((c.name, i) for i, c in enumerate(cols))
    cons = sorted(set(tuple(sorted((cidx[con.column[0].name], cidx[con.column[1].name])))
                      for con in geo.connectionlist))
    cons = [(b, a) if (a + b) % 3 == 0 else (a, b) for (a, b) in cons]
    return {'nodes': [(float(n.pos[0]), float(n.pos[1])) for n in nodes],
            'cols': [(ring(c), (float(c.centre[0]), float(c.centre[1])) if c.centre_specified else None)
                     for c in cols],
            'cons': cons,
            'top': float(geo.layerlist[0].bottom),
            'bottoms': [float(l.bottom) for l in geo.layerlist[1:]],
            'surfaces': [None if c.surface is None else float(c.surface) for c in cols]}


def rect_spec(nx, ny, nz, z0=None):
    z0 = ORIGIN[2] if z0 is None else z0
    xs, ys = XS[:nx], YS[:ny]
    xv = [ORIGIN[0]]
    for d in xs:
        xv.append(xv[-1] + d)
    yv = [ORIGIN[1]]
    for d in ys:
        yv.append(yv[-1] + d)
    nxv = nx + 1
    nodes = [(x, y) for y in yv for x in xv]
    cols = []
    for j in range(ny):
        for i in range(nx):
            cols.append(([j * nxv + i, (j + 1) * nxv + i, (j + 1) * nxv + i + 1, j * nxv + i + 1], None))
    cons = []
    for j in range(ny):
        for i in range(nx - 1):
            cons.append((j * nx + i, j * nx + i + 1))
    for i in range(nx):
        for j in range(ny - 1):
            cons.append((j * nx + i, (j + 1) * nx + i))
    bottoms, z = [], z0
    for t in ZS[:nz]:
        z -= t
        bottoms.append(z)
    return {'nodes': nodes, 'cols': cols, 'cons': cons, 'top': z0, 'bottoms': bottoms}


def shipped(name):
    import mulgrids
    return mulgrids.mulgrid(os.path.join(core.REPO, 'tests', 'mulgrid', name + '.dat'))


_spec_cache = {}


def geom_spec(desc):
    """Raw spec of a non-library-built geometry (cached per process)."""
    if desc in _spec_cache:
        return _spec_cache[desc]
    kind = desc[0]
    if kind == 'rect':
        spec = rect_spec(*desc[1:])
    elif kind in ('mix', 'tq'):
        spec = MIX if kind == 'mix' else TQ
        if len(desc) > 1:        # every elevation shifted by desc[1]
            spec = dict(spec, top=spec['top'] + desc[1], bottoms=[b + desc[1] for b in spec['bottoms']])
    elif kind in ('mixs', 'tqs'):
        base, f = (MIX if kind == 'mixs' else TQ), desc[1]
        spec = {'nodes': [(x * f, y * f) for (x, y) in base['nodes']],
                'cols': [(ring, None if c is None else (c[0] * f, c[1] * f)) for (ring, c) in base['cols']],
                'cons': base['cons'], 'top': base['top'] * f, 'bottoms': [b * f for b in base['bottoms']]}
    elif kind == 'mixr':
        geo = build_from_spec(MIX, 'c0')
        geo.refine([geo.columnlist[0]])
        spec = spec_from_geo(geo)
        spec['surfaces'] = None
    elif kind == 'g7':
        spec = spec_from_geo(shipped('g7'))
    elif kind == 'g7r':
        geo = shipped('g7')
        geo.refine()
        spec = spec_from_geo(geo)
    elif kind == 'g7p':
        geo = shipped('g7')
        sel = [c for c in geo.columnlist if 900. < c.centre[0] < 2600. and 900. < c.centre[1] < 2600.]
        geo.refine(sel)
        spec = spec_from_geo(geo)
    else:
        raise core.HarnessError('unknown geometry %r' % (desc,))
    _spec_cache[desc] = spec
    return spec


def build(desc, naming, transform):
    """The geometry object of (descriptor, naming, transform), or None when the naming cannot hold it."""
    import mulgrids
    with quiet():
        if desc[0] == 'file':
            geo = shipped(desc[1])
        elif naming.startswith('lib') and desc[0] == 'rects':
            # the rectangular shapes at another length scale: every spacing and the origin times f
            nx, ny, nz, f = desc[1:5]
            geo = mulgrids.mulgrid().rectangular([v * f for v in XS[:nx]], [v * f for v in YS[:ny]],
                                                 [v * f for v in ZS[:nz]], convention=int(naming[3]),
                                                 atmos_type=2, origin=[v * f for v in ORIGIN])
        elif naming.startswith('lib'):
            nx, ny, nz = desc[1:4]
            origin = list(ORIGIN) if len(desc) < 5 else [ORIGIN[0], ORIGIN[1], desc[4]]
            geo = mulgrids.mulgrid().rectangular(XS[:nx], YS[:ny], ZS[:nz], convention=int(naming[3]),
                                                 atmos_type=2, origin=origin)
        else:
            geo = build_from_spec(geom_spec(desc), naming)
            if geo is None:
                return None
        if transform == 'rot90':
            geo.rotate(90.)
        elif transform == 'rot30':
            geo.rotate(30.)
        elif transform == 'shift':
            geo.translate(list(SHIFT))
        elif transform in TILTS:
            geo.gdcx, geo.gdcy = TILTS[transform]
        elif transform in CENTRES:
            # layer centres off the mid-point (legal: the LAYERS record and the layer object carry a centre)
            which = range(1, len(geo.layerlist)) if transform == 'offall' else [int(transform[3:])]
            for k in which:
                if k < len(geo.layerlist):
                    lay = geo.layerlist[k]
                    lay.centre = lay.bottom + 0.4 * (lay.top - lay.bottom)
        elif transform != 'id':
            raise core.HarnessError('unknown transform %r' % transform)
    return geo


def surface_alphabet(geo, f=1.0):
    """The six surface elevations, placed on the geometry's own layer elevations (f: length scale of the
    geometry, applied to the two absolute offsets)."""
    lays = geo.layerlist
    top = float(lays[0].bottom)
    b1, b2 = float(lays[1].bottom), float(lays[2].bottom)
    return [top + 0.75 * f,
            top,
            b1 + 0.375 * (top - b1),
            b1,
            b2 + 0.375 * (b1 - b2),
            float(lays[-2].bottom) + 0.015625 * f]


def surface_sets(mode, ncol, pairs, nval=6):
    """Surface assignments as tuples of alphabet indices (base = 1, '= top')."""
    base = (1,) * ncol
    if mode == 'file':
        return [None]
    if mode == 'base':
        return [base]
    if mode == 'prod':
        return list(itertools.product(range(6), repeat=ncol))
    dev = [v for v in range(nval) if v != 1]
    out = [base]
    if mode.endswith('z'):       # also every uniform assignment
        out += [(v,) * ncol for v in dev]
        mode = mode[:-1]
    for i in range(ncol):
        for v in dev:
            s = list(base)
            s[i] = v
            out.append(tuple(s))
    if mode == 'k1':
        return out
    if mode == 'k2':
        pr = list(itertools.combinations(range(ncol), 2))
    elif mode == 'k2c':
        pr = sorted(set(tuple(sorted(p)) for p in pairs))
    else:
        raise core.HarnessError('surface mode %r' % mode)
    for (i, j) in pr:
        for v in dev:
            for w in dev:
                s = list(base)
                s[i], s[j] = v, w
                out.append(tuple(s))
    return out


def base36(i, w):
    d = '0123456789ABCDEFGHIJKLMNOPQRSTUVWXYZ'
    s = ''
    for _ in range(w):
        s = d[i % 36] + s
        i //= 36
    return s


def make_blockmap(kind, names):
    if kind == 'none':
        return None
    if kind == 'full':
        return dict((n, 'Z' + base36(i, 4)) for i, n in enumerate(names))
    if kind == 'part':
        return dict((n, 'Z' + base36(i, 4)) for i, n in enumerate(names) if i % 2)
    raise core.HarnessError('blockmap kind %r' % kind)


# ---------------------------------------------------------------------------------------------------------
# one case

class Ctx(object):
    def __init__(self, desc, naming, transform):
        self.desc, self.naming, self.transform = desc, naming, transform
        self.geo = build(desc, naming, transform)
        if self.geo is None:
            return
        geo = self.geo
        if len(set(geo.block_name_list)) != len(geo.block_name_list):
            raise core.HarnessError('naming %s gives duplicate block names on %r' % (naming, desc))
        self.raw = R.extract(geo)
        self.st = R.Static(self.raw)
        self.alphabet = surface_alphabet(geo, desc[-1] if desc[0] in ('rects', 'mixs', 'tqs') else 1.0)
        if (desc[0] == 'rect' and len(desc) == 5) or (desc[0] in ('mix', 'tq') and len(desc) == 2):
            # geometries placed so that an exact 0.0 is a legal surface elevation: 0.0 and -0.0 join the alphabet
            if 0.0 > float(geo.layerlist[-1].bottom):
                self.alphabet = self.alphabet + [0.0, -0.0]
        self.file_surfaces = [c.surface for c in geo.columnlist]
        self.ncol = len(geo.columnlist)
        self.pairs = [(hc['a'], hc['b']) for hc in self.st.hcons]
        self.dmplex_ok = all(len(c['nodes']) in (3, 4) for c in self.raw.cols)
        self.tilted = transform in TILTS
        self.nameclass = {'c0d': 'digit-columns', 'c3d': 'digit-columns-conv3',
                          'c1d': 'digit-layers-conv1'}.get(naming, 'std')
        self.centreclass = '|layer-centres=off-mid' if transform in CENTRES else ''
        self.atm_connection = R.fr(geo.atmosphere_connection)
        self.conv0 = geo.convention

    def other_order(self, order):
        if order is None:
            return 'dmplex' if self.dmplex_ok else 'layer_column'
        return None

    def configure(self, atm, order, angle, sidx, route):
        """Brings the geometry to (atm, order, angle, surfaces) by the stated route and returns the
        (geometry, reference statics) to convert.  'direct': options set, then surfaces, then the two index
        set-up calls (what read() does).  Every other route ends with a plain property assignment (or with
        reading a file) and nothing after it, so the announced lists are those the library itself left behind:
          atmX   atmosphere type X first, surfaces + set-up, then geo.atmosphere_type = atm
          fileX  the same geometry written with atmosphere type X, read back from the file, then (X != atm)
                 geo.atmosphere_type = atm on the geometry read
          order  the other block order first, surfaces + set-up, then geo.block_order = order
          conv03 built under convention 0, surfaces + set-up, then geo.convention = 3"""
        geo = self.geo
        geo.permeability_angle = angle
        if geo.convention != self.conv0:
            geo.convention = self.conv0
        self.raw.convention = self.conv0
        if route == 'direct':
            if geo.atmosphere_type != atm:
                geo.atmosphere_type = atm
            if geo.block_order != order:
                geo.block_order = order
            self.set_surfaces(sidx)
            return geo, self.st
        if route == 'order':
            geo.atmosphere_type = atm
            geo.block_order = self.other_order(order)
            self.set_surfaces(sidx)
            geo.block_order = order
            return geo, self.st
        if route == 'conv03':
            if self.conv0 != 0:
                raise core.HarnessError('route conv03 needs a geometry named under convention 0')
            geo.atmosphere_type = atm
            geo.block_order = order
            self.set_surfaces(sidx)
            geo.convention = 3
            self.raw.convention = 3
            return geo, self.st
        src = int(route[-1])
        geo.block_order = order
        geo.atmosphere_type = src
        self.set_surfaces(sidx)
        if route.startswith('atm'):
            geo.atmosphere_type = atm
            return geo, self.st
        if route.startswith('file'):
            import mulgrids
            path = os.path.join(core.scratch(), 'c04route.dat')
            geo.write(path)
            g2 = mulgrids.mulgrid(path)
            if src != atm:
                g2.atmosphere_type = atm
            return g2, R.Static(R.extract(g2))
        raise core.HarnessError('unknown route %r' % route)

    def set_surfaces(self, sidx):
        geo = self.geo
        for i, col in enumerate(geo.columnlist):
            if sidx is not None and sidx[i] is None:
                # (histories on a fresh object only) the column's surface is left exactly as the constructor / reader
                # left it - never assigned through the surface setter
                continue
            col.surface = self.file_surfaces[i] if sidx is None else self.alphabet[sidx[i]]
            geo.set_column_num_layers(col)
        geo.setup_block_name_index()
        geo.setup_block_connection_name_index()


def close(a, b):
    try:
        return abs(a - b) <= RTOL * abs(b)
    except Exception:
        return False


def list_diff(got, want):
    if len(got) != len(want):
        return 'count'
    if sorted(got) != sorted(want):
        return 'members'
    return 'order'


def first_diff(got, want):
    for i, (g, w) in enumerate(zip(got, want)):
        if g != w:
            return 'position %d: grid %r, expected %r' % (i, g, w)
    return 'lengths %d / %d' % (len(got), len(want))


def lib_frame(tb):
    name = '?'
    for fs in traceback.extract_tb(tb):
        if os.path.realpath(fs.filename).startswith(os.path.realpath(core.REPO) + os.sep):
            name = '%s.%s' % (os.path.basename(fs.filename)[:-3], fs.name)
    return name


def judge(geo, st, grid, announced_b, announced_c, bm, atm, order, angle, tilted, rc_, add, stats=None):
    """Every clause of the statement on one converted grid.  Returns (outcome, nontrivial)."""
    surf = [R.fr(c.surface) for c in geo.columnlist]
    raw = st.raw
    blocks, conns, rockvol = R.expected(st, surf, atm, R.fr(geo.atmosphere_connection), angle)
    m = (lambda n: n) if bm is None else (lambda n: bm.get(n, n))
    natm = {0: 1, 1: len(geo.columnlist), 2: 0}[atm]
    ac = 'atm%d' % atm

    # -- blocks: names, order
    got_b = [b.name for b in grid.blocklist]
    want_b = [m(n) for n in announced_b]
    if got_b != want_b:
        add('block-list-differs-from-announced', '%s|%s%s' % (list_diff(got_b, want_b), ac, rc_),
            first_diff(got_b, want_b))
    ref_ug = [b['name'] for b in blocks]
    if sorted(announced_b[natm:]) != sorted(ref_ug):
        add('announced-blocks-differ-from-raw-data', ac + rc_,
            'announced %d underground blocks, raw data give %d: %s'
            % (len(announced_b) - natm, len(ref_ug),
               sorted(set(announced_b[natm:]) ^ set(ref_ug))[:6]))
    else:
        # documented orderings (mulformat.rst header record, block_name_list_dmplex): layer then column; or
        # blocks of four-sided columns first, then those of three-sided columns, each by layer then column
        if order == 'dmplex':
            nn = [len(c['nodes']) for c in raw.cols]
            want_order = [b['name'] for b in blocks if nn[b['col']] == 4] + \
                         [b['name'] for b in blocks if nn[b['col']] == 3]
        else:
            want_order = ref_ug
        if announced_b[natm:] != want_order:
            add('announced-block-order-differs-from-documented', 'order=%s|%s%s' % (order, ac, rc_),
                'block order %r: %s' % (order, first_diff(announced_b[natm:], want_order)))
    atm0 = announced_b[0] if (atm == 0 and announced_b) else None
    if atm == 1:
        ref_atm = [R.compose_name(raw.convention, st.lname[0], c) for c in st.colnames]
        if sorted(announced_b[:natm]) != sorted(ref_atm):
            add('announced-blocks-differ-from-raw-data', ac + '|atmosphere-blocks',
                'announced atmosphere blocks %r, raw data %r' % (announced_b[:natm][:4], ref_atm[:4]))
    if set(grid.block.keys()) != set(got_b) or any(grid.block.get(b.name) is not b for b in grid.blocklist):
        add('block-index-inconsistent', ac, 'grid.block does not index grid.blocklist')

    # -- connections: names, order, orientation
    got_c = [tuple(b.name for b in c.block) for c in grid.connectionlist]
    want_c = [(m(a), m(b)) for (a, b) in announced_c]
    if got_c != want_c:
        add('connection-list-differs-from-announced', '%s|%s%s' % (list_diff(got_c, want_c), ac, rc_),
            first_diff(got_c, want_c))
    ref_c = [(c['names'][0], c['names'][1] if c['names'][1] is not None else atm0) for c in conns]
    if sorted(announced_c) != sorted(ref_c):
        add('announced-connections-differ-from-raw-data', '%s|%s%s' % (list_diff(announced_c, ref_c), ac, rc_),
            'announced %d connections, raw data give %d: %s'
            % (len(announced_c), len(ref_c), sorted(set(announced_c) ^ set(ref_c))[:4]))
    if set(grid.connection.keys()) != set(got_c) or \
            any(grid.connection.get(k) is not c for k, c in zip(got_c, grid.connectionlist)):
        add('connection-index-inconsistent', ac, 'grid.connection does not index grid.connectionlist')

    # -- block volumes and centres
    byname = dict((m(b['name']), b) for b in blocks)
    total = 0.0
    nb = 0
    hs, zs = st_scale(st), st_zscale(st)
    for blk in grid.blocklist:
        rb = byname.get(blk.name)
        if rb is None:
            continue
        nb += 1
        try:
            total += blk.volume
        except Exception:
            pass
        if not close(blk.volume, rb['volume']):
            add('block-volume', rb['kind'],
                'block %r (layer %d, column %d, %s): volume %r, exact %r'
                % (blk.name, rb['layer'], rb['col'], rb['kind'], blk.volume, rb['volume']))
        cx, cy = st.fcentre[rb['col']]
        ctr = blk.centre
        try:
            okh = len(ctr) == 3 and abs(ctr[0] - cx) <= hs and abs(ctr[1] - cy) <= hs
            okz = okh and abs(ctr[2] - rb['z']) <= zs
        except Exception:
            okh = okz = False
        if not okh:
            add('block-centre-horizontal', 'column-centre', 'block %r: centre %r, column centre (%r, %r)'
                % (blk.name, ctr, cx, cy))
        elif not okz:
            add('block-centre-elevation', rb['kind'], 'block %r (%s): centre elevation %r, expected %r'
                % (blk.name, rb['kind'], ctr[2], rb['z']))
    if nb == len(blocks) and not close(total, rockvol):
        add('total-rock-volume', ac, 'sum of block volumes %r, sum of column area x depth to surface %r'
            % (total, rockvol))

    # -- connection parameters
    bycon = dict(((m(c['names'][0]), m(c['names'][1] if c['names'][1] is not None else atm0)), c)
                 for c in conns)
    nk = {'atm': 0, 'vert': 0, 'horiz': 0}
    ntrunc = 0
    for names, con in zip(got_c, grid.connectionlist):
        rc = bycon.get(names)
        if rc is None:
            continue
        kind = rc['kind']
        nk[kind] += 1
        if not close(con.area, rc['area']):
            add('%s-area' % kind, rc['cls'], 'connection %r (%s, %s): area %r, exact %r'
                % (names, kind, rc['cls'], con.area, rc['area']))
        d = con.distance
        if d is None or len(d) != 2:
            add('%s-distance' % kind, 'malformed', 'connection %r: distance %r' % (names, d))
        elif kind == 'vert':
            if not (close(d[0] + d[1], rc['dsum']) and d[0] > 0 and d[1] > 0):
                add('vert-distance-sum', rc['cls'],
                    'connection %r: distances %r add up to %r, centre separation %r'
                    % (names, list(d), d[0] + d[1], rc['dsum']))
        else:
            if not (close(d[0], rc['dist'][0]) and close(d[1], rc['dist'][1])):
                what = 'connection %r (%s): distances %r, exact %r' % (names, rc['cls'], list(d), list(rc['dist']))
                if close(d[0], rc['dist'][1]) and close(d[1], rc['dist'][0]):
                    add('%s-distance' % kind, 'swapped|' + rc['cls'], what)
                else:
                    add('%s-distance' % kind, rc['cls'], what)
        if con.direction not in rc['dirs']:
            add('%s-direction' % kind, 'angle%g' % angle, 'connection %r: direction %r, expected %r (angle %g)'
                % (names, con.direction, rc['dirs'], angle))
        if not tilted:
            lc = con.dircos
            if kind != 'horiz':
                if not (isinstance(lc, (int, float)) or hasattr(lc, 'dtype')) or abs(lc + 1.0) > 1e-12:
                    add('%s-cosine' % kind, rc['cls'], 'connection %r: gravity cosine %r, expected -1' % (names, lc))
            elif abs(rc['cos']) <= 1e-12:
                if not abs(lc) <= 1e-9:
                    add('horiz-cosine', rc['cls'],
                        'connection %r between blocks at equal elevation: cosine %r' % (names, lc))
            else:
                ntrunc += 1
                if not abs(lc - rc['cos']) <= RTOL * abs(rc['cos']) + 1e-13 or lc == 0:
                    add('horiz-cosine', rc['cls'],
                        'connection %r beside a truncated block (dz = %r): cosine %r, exact %r'
                        % (names, rc['dz'], lc, rc['cos']))
    if stats is not None:
        stats['blocks'] += nb
        stats['connections_atmosphere'] += nk['atm']
        stats['connections_vertical'] += nk['vert']
        stats['connections_horizontal'] += nk['horiz']
        stats['connections_beside_truncated'] += ntrunc
        stats['grids'] += 1
        stats['grids_nontrivial'] += 1 if (len(got_b) >= 2 and len(got_c) >= 1) else 0
    return ntrunc, (len(got_b) >= 2 and len(got_c) >= 1)


def eval_case(ctx, atm, order, angle, bmkind, sidx, stats=None, route='direct'):
    """Runs fromgeo on the configured geometry and evaluates every clause.
    Returns (violations [(sig, what)], outcome, nontrivial)."""
    import t2grids
    geo, st = ctx.geo, ctx.st
    out = []

    def add(clause, cls, what):
        sig = 'C04|fromgeo|%s|%s%s' % (clause, cls, ctx.centreclass)
        if not any(o[0] == sig for o in out):
            out.append((sig, what))

    with quiet():
        try:
            with core.timelimit(CASE_SECONDS):
                geo, st = ctx.configure(atm, order, angle, sidx, route)
        except core.CaseTimeout:
            add('timeout-announcing', ctx.nameclass, 'setting up the announced lists did not return')
            return out, 'timeout', True
        except Exception as e:
            import sys
            add('announcing-raises-%s@%s' % (type(e).__name__, lib_frame(sys.exc_info()[2])),
                'names=%s' % ctx.nameclass,
                'bringing the geometry to its options / surfaces (route %s) raised %s: %s' % (route, type(e).__name__, e))
            return out, 'raised', True
        announced_b = list(geo.block_name_list)
        announced_c = list(geo.block_connection_name_list)
        bm = make_blockmap(bmkind, announced_b)
        try:
            with core.timelimit(CASE_SECONDS):
                grid = t2grids.t2grid().fromgeo(geo) if bm is None else t2grids.t2grid().fromgeo(geo, bm)
        except core.CaseTimeout:
            add('timeout', ctx.nameclass, 'fromgeo did not return within %d s' % CASE_SECONDS)
            return out, 'timeout', True
        except Exception as e:
            import sys
            where = lib_frame(sys.exc_info()[2])
            add('raises-%s@%s' % (type(e).__name__, where), 'names=%s' % ctx.nameclass,
                'fromgeo raised %s: %s (announced blocks %r...)' % (type(e).__name__, e, announced_b[:4]))
            return out, 'raised', True
    rc_ = '' if route == 'direct' else '|route=' + route.rstrip('012')
    ntrunc, nontrivial = judge(geo, st, grid, announced_b, announced_c, bm, atm, order, angle, ctx.tilted, rc_, add,
                               stats)
    outcome = 'atm%d|%s|%s' % (atm, 'truncated' if ntrunc else 'level', 'VIOLATION' if out else 'ok')
    return out, outcome, nontrivial


def st_scale(st):
    """Absolute tolerance on a horizontal position: 1e-9 of the extent of the mesh plus a few ulps of the
    largest coordinate (positions far from the origin carry that much round-off whatever is done)."""
    s = getattr(st, '_scale', None)
    if s is None:
        xs = [float(p[0]) for p in st.raw.nodes.values()]
        ys = [float(p[1]) for p in st.raw.nodes.values()]
        ext = max(max(xs) - min(xs), max(ys) - min(ys))
        big = max(abs(v) for v in xs + ys)
        s = RTOL * ext + 8 * 2.3e-16 * big
        st._scale = s
    return s


def st_zscale(st):
    zs = [float(b) for b in st.bottom]
    return RTOL * (max(zs) - min(zs)) + 8 * 2.3e-16 * max(abs(z) for z in zs)


# ---------------------------------------------------------------------------------------------------------
# histories on one geometry object: convert -> edit -> convert again

def edits_of(ctx):
    """The edit alphabet of a geometry (name-free descriptors)."""
    out = [('none',)]
    for i, c in enumerate(ctx.raw.cols):
        if len(c['nodes']) == 4:
            out += [('split', i, k) for k in range(4)]
    out += [('centre', i) for i in range(ctx.ncol)]
    out += [('node', j) for j in range(len(ctx.geo.nodelist))]
    out += [('rotate',), ('translate',)]
    out += [('surface', i, v) for i in range(ctx.ncol) for v in (2, 3)]
    out += [('snap',)]
    out += [('refine', i) for i in range(ctx.ncol)]
    return out + structure_edits(ctx)


RELAYER = ('up', 'upthin', 'down', 'same')
LAYNAMES = ('swap', 'cycle', 'plain', 'atm')
COLNAMES = ('swap', 'cycle', 'plain')
REFLAYERS = ('all', 'first', 'last3')


def structure_edits(ctx):
    """Edits of the layer structure, of the names and of all surfaces at once (seventh round)."""
    out = [('relayer', v) for v in RELAYER]
    out += [('copylayers', v) for v in ('up', 'down')]
    out += [('laynames', v) for v in LAYNAMES]
    out += [('colnames', v) for v in COLNAMES if ctx.ncol >= 2 or v == 'plain']
    out += [('reflayers', v) for v in REFLAYERS]
    out += [('surfaces', 'mixed'), ('surfaces', 'lower'), ('fit',), ('translatez',)]
    return out


def new_layering(geo, how):
    """(thicknesses, top elevation) of a replacement layer structure placed relative to the present one: 'up' - top
    half a first layer higher, the old top inside the new first layer; 'upthin' - the same top, the old top on the
    new first boundary; 'down' - top half a first layer lower; 'same' - same top, first layer halved."""
    top = float(geo.layerlist[0].bottom)
    th = [float(l.top) - float(l.bottom) for l in geo.layerlist[1:]]
    d = 0.5 * th[0]
    if how == 'up':
        return [d + 0.5 * th[0], 0.5 * th[0]] + th[1:], top + d
    if how == 'upthin':
        return [d] + th, top + d
    if how == 'down':
        return [0.5 * th[0]] + th[1:], top - d
    if how == 'same':
        return [0.5 * th[0], 0.5 * th[0]] + th[1:], top
    raise core.HarnessError('layering %r' % how)


def reindex(geo):
    for col in geo.columnlist:
        geo.set_column_num_layers(col)
    geo.setup_block_name_index()
    geo.setup_block_connection_name_index()


def unused_name(names, digits):
    w = len(names[0])
    for cand in (('987', '986', '985') if digits else ('zyx', 'zyw', 'zyv')):
        n = cand[:w].rjust(w)
        if n not in names:
            return n
    raise core.HarnessError('no unused name')


def apply_structure_edit(geo, edit, alphabet):
    import numpy as np
    import mulgrids
    k, v = edit[0], (edit[1] if len(edit) > 1 else None)
    if k == 'relayer':
        # the layers replaced through add_layers (which clears them first), then what follows any layer edit
        th, top = new_layering(geo, v)
        geo.add_layers(th, top_elevation=top, surface_layer_name=geo.layerlist[0].name)
        reindex(geo)
    elif k == 'copylayers':
        th, top = new_layering(geo, v)
        other = mulgrids.mulgrid(convention=geo.convention)
        other.add_layers(th, top_elevation=top, surface_layer_name=geo.layerlist[0].name)
        geo.copy_layers_from(other)
    elif k == 'laynames':
        names = [l.name for l in geo.layerlist]
        if v == 'swap':
            geo.rename_layer([names[1], names[2]], [names[2], names[1]])
        elif v == 'cycle':
            geo.rename_layer(names[1:], names[2:] + names[1:2])
        elif v == 'plain':
            geo.rename_layer(names[1], unused_name(names, False))
        elif v == 'atm':
            geo.rename_layer(names[0], unused_name(names, False))
    elif k == 'colnames':
        names = [c.name for c in geo.columnlist]
        if v == 'swap':
            geo.rename_column([names[0], names[1]], [names[1], names[0]])
        elif v == 'cycle':
            geo.rename_column(names, names[1:] + names[:1])
        elif v == 'plain':
            geo.rename_column(names[0], unused_name(names, names[0].strip().isdigit()))
    elif k == 'reflayers':
        if v == 'all':
            geo.refine_layers()
        elif v == 'first':
            geo.refine_layers([geo.layerlist[1].name])
        elif v == 'last3':
            geo.refine_layers([geo.layerlist[-1].name], factor=3)
    elif k == 'surfaces':
        for i, col in enumerate(geo.columnlist):
            col.surface = alphabet[(3, 2, 1, 4, 0, 2)[i % 6]] if v == 'mixed' else alphabet[2]
        reindex(geo)
    elif k == 'fit':
        data = np.array([[float(c.centre[0]), float(c.centre[1]), alphabet[(2, 4, 1, 3)[i % 4]]]
                         for i, c in enumerate(geo.columnlist)])
        geo.fit_surface(data, silent=True)
        geo.setup_block_name_index()
        geo.setup_block_connection_name_index()
    elif k == 'translatez':
        geo.translate([0.0, 0.0, -2.75])
    else:
        raise core.HarnessError('unknown edit %r' % (edit,))


def apply_edit(geo, edit, alphabet):
    """One edit through the documented interface; every edit leaves the announced lists to the library
    except 'surface', which is followed by the two set-up calls as reading a SURFA section is."""
    k = edit[0]
    if k == 'none':
        return
    if k == 'split':
        col = geo.columnlist[edit[1]]
        geo.split_column(col.name, col.node[edit[2]].name)
    elif k == 'centre':
        col = geo.columnlist[edit[1]]
        col.centre = col.centre + 0.15 * (col.node[0].pos - col.centre)
        col.centre_specified = 1
    elif k == 'node':
        nod = geo.nodelist[edit[1]]
        cols = [c for c in geo.columnlist if nod in c.node]
        nod.pos = nod.pos + 0.1 * (cols[0].centre - nod.pos)
        for c in cols:      # the refresh optimize() performs after moving nodes
            c.get_area()
            if not c.centre_specified:
                c.centre = c.centroid
    elif k == 'rotate':
        geo.rotate(25.)
    elif k == 'translate':
        geo.translate([3.5, -1.25, 0.75])
    elif k == 'surface':
        col = geo.columnlist[edit[1]]
        col.surface = alphabet[edit[2]]
        geo.set_column_num_layers(col)
        geo.setup_block_name_index()
        geo.setup_block_connection_name_index()
    elif k == 'snap':
        geo.snap_columns_to_layers(0.5)
    elif k == 'refine':
        geo.refine([geo.columnlist[edit[1]]])
    else:
        apply_structure_edit(geo, edit, alphabet)


def fnum(x):
    return None if x is None else float(x)


def grid_digest(grid):
    return ([(b.name, fnum(b.volume), None if b.centre is None else tuple(float(v) for v in b.centre))
             for b in grid.blocklist],
            [(tuple(b.name for b in c.block), tuple(float(v) for v in c.distance), float(c.area), float(c.dircos),
              int(c.direction)) for c in grid.connectionlist])


def geo_digest(geo):
    return ([(n.name, float(n.pos[0]), float(n.pos[1])) for n in geo.nodelist],
            [(c.name, [n.name for n in c.node], float(c.centre[0]), float(c.centre[1]), c.centre_specified,
              fnum(c.surface), c.num_layers, float(c.area)) for c in geo.columnlist],
            [(con.column[0].name, con.column[1].name, [n.name for n in con.node]) for con in geo.connectionlist],
            [(l.name, float(l.bottom), float(l.centre), float(l.top)) for l in geo.layerlist],
            list(geo.block_name_list), list(geo.block_connection_name_list),
            geo.atmosphere_type, geo.convention, geo.block_order, fnum(geo.permeability_angle))


def raw_equal(ra, sa, rb, sb):
    return (ra.nodes == rb.nodes and ra.cols == rb.cols and ra.cons == rb.cons and ra.layers == rb.layers
            and ra.convention == rb.convention and sa == sb)


def grids_agree(g1, g2):
    """Same blocks and connections in the same order, numbers within the comparison tolerance."""
    (b1, c1), (b2, c2) = grid_digest(g1), grid_digest(g2)
    if [b[0] for b in b1] != [b[0] for b in b2]:
        return 'block names'
    if [c[0] for c in c1] != [c[0] for c in c2]:
        return 'connection names'
    def near(x, y, scale):
        return abs(x - y) <= RTOL * max(abs(x), abs(y)) + scale
    for x, y in zip(b1, b2):
        if (x[1] is None) != (y[1] is None) or (x[1] is not None and not near(x[1], y[1], 0.0)):
            return 'volume of %r: %r / %r' % (x[0], x[1], y[1])
    for x, y in zip(c1, c2):
        if not (near(x[2], y[2], 0.0) and near(x[1][0], y[1][0], 0.0) and near(x[1][1], y[1][1], 0.0)
                and near(x[3], y[3], 1e-9) and x[4] == y[4]):
            return 'connection %r: %r / %r' % (x[0], x[1:], y[1:])
    return None


def eval_history(desc, naming, atm, order, angle, bmkind, sidx, edit, stats=None, first=True, reread=True):
    """[convert ->] edit -> convert again on one fresh geometry object (first: whether the object was converted
    before the edit); the grid after the edit is judged against the reference rebuilt from the edited geometry's
    raw data.  reread: the edited geometry is also written, read back and the copy converted: that grid is judged
    against the copy's own raw data, and when the copy's raw data equal the edited object's the two grids must
    agree.  Returns (violations, outcome, nontrivial)."""
    import sys
    import t2grids
    import mulgrids
    ctx = Ctx(desc, naming, 'id')
    out = []
    tag0 = '|after=%s%s%s' % ('second-call' if edit[0] == 'none' else edit[0], '' if first else '|not-converted-before',
                              '|surfaces-as-constructed' if None in sidx else '')
    tag = [tag0]

    def add(clause, cls, what):
        sig = 'C04|fromgeo|%s|%s%s' % (clause, cls, tag[0])
        if not any(o[0] == sig for o in out):
            out.append((sig, what))

    def convert(g, m):
        return t2grids.t2grid().fromgeo(g) if m is None else t2grids.t2grid().fromgeo(g, m)

    with quiet():
        geo, st = ctx.configure(atm, order, angle, sidx, 'direct')
        grid1 = None
        if first:
            bm = make_blockmap(bmkind, list(geo.block_name_list))
            before = geo_digest(geo)
            bm_before = None if bm is None else dict(bm)
            try:
                with core.timelimit(CASE_SECONDS):
                    grid1 = convert(geo, bm)
            except core.CaseTimeout:
                raise
            except Exception:
                return out, 'first-conversion-raised', False       # judged by the plain cases
            if geo_digest(geo) != before or bm != bm_before:
                add('fromgeo-modifies-its-arguments', 'geometry' if bm == bm_before else 'blockmap',
                    'the geometry (or block mapping) differs after fromgeo')
        try:
            with core.timelimit(CASE_SECONDS):
                apply_edit(geo, edit, ctx.alphabet)
            st2 = R.Static(R.extract(geo))
            if order == 'dmplex' and not all(len(c['nodes']) in (3, 4) for c in st2.raw.cols):
                raise R.RefError('dmplex no longer applies')
            if len(set(geo.block_name_list)) != len(geo.block_name_list):
                raise R.RefError('names no longer unique')
            R.expected(st2, [R.fr(c.surface) for c in geo.columnlist], atm, R.fr(geo.atmosphere_connection), angle)
        except core.CaseTimeout:
            raise
        except R.RefError:
            if stats is not None:
                stats['history_edit_left_no_valid_geometry'] += 1
                stats['history_edit_left_no_valid_geometry_' + edit[0]] += 1
            return out, 'edit-invalid', False                  # the edit itself is other properties' business
        except Exception:
            if stats is not None:
                stats['history_edit_raised'] += 1
                stats['history_edit_raised_' + edit[0]] += 1
            return out, 'edit-raised', False
        announced_b = list(geo.block_name_list)
        announced_c = list(geo.block_connection_name_list)
        bm2 = make_blockmap(bmkind, announced_b)
        try:
            with core.timelimit(CASE_SECONDS):
                grid2 = convert(geo, bm2)
        except core.CaseTimeout:
            add('timeout', ctx.nameclass, 'fromgeo after the edit did not return')
            return out, 'timeout', True
        except Exception as e:
            add('raises-%s@%s' % (type(e).__name__, lib_frame(sys.exc_info()[2])), 'names=%s' % ctx.nameclass,
                'fromgeo (after %r%s) raised %s: %s' % (edit, ', converted once before' if first else '',
                                                         type(e).__name__, e))
            return out, 'raised', True
        # the written and re-read copy of the edited geometry
        g3 = grid3 = st3 = None
        if reread:
            try:
                with core.timelimit(CASE_SECONDS):
                    path = os.path.join(core.scratch(), 'c04hist.dat')
                    geo.write(path)
                    g3 = mulgrids.mulgrid(path)
                st3 = R.Static(R.extract(g3))
                if len(set(g3.block_name_list)) != len(g3.block_name_list):
                    raise R.RefError('names not unique')
                R.expected(st3, [R.fr(c.surface) for c in g3.columnlist], g3.atmosphere_type,
                           R.fr(g3.atmosphere_connection), angle)
            except core.CaseTimeout:
                raise
            except Exception:
                g3 = None                                       # writing / reading is other properties' business
                if stats is not None:
                    stats['history_copy_not_available'] += 1
            if g3 is not None:
                ann3_b, ann3_c = list(g3.block_name_list), list(g3.block_connection_name_list)
                bm3 = make_blockmap(bmkind, ann3_b)
                tag[0] = tag0 + '|written-and-read-back'
                try:
                    with core.timelimit(CASE_SECONDS):
                        grid3 = convert(g3, bm3)
                except core.CaseTimeout:
                    add('timeout', ctx.nameclass, 'fromgeo of the written and re-read copy did not return')
                except Exception as e:
                    add('raises-%s@%s' % (type(e).__name__, lib_frame(sys.exc_info()[2])), 'names=%s' % ctx.nameclass,
                        'fromgeo of the written and re-read copy (after %r) raised %s: %s' % (edit, type(e).__name__, e))
                tag[0] = tag0
    if first and edit[0] == 'none' and grid_digest(grid1) != grid_digest(grid2):
        add('second-conversion-differs', 'atm%d' % atm, 'two conversions of the same unchanged geometry differ')
    ntrunc, nontrivial = judge(geo, st2, grid2, announced_b, announced_c, bm2, atm, order, angle, False, '', add,
                               stats)
    if grid3 is not None:
        tag[0] = tag0 + '|written-and-read-back'
        judge(g3, st3, grid3, ann3_b, ann3_c, bm3, g3.atmosphere_type, order, float(g3.permeability_angle), False,
              '', add, stats)
        tag[0] = tag0
        same = raw_equal(st2.raw, R.surfaces_of(geo), st3.raw, R.surfaces_of(g3)) and \
            (bm2 == bm3) and g3.atmosphere_type == atm and float(g3.permeability_angle) == float(angle)
        if stats is not None:
            stats['history_copies_converted'] += 1
            stats['history_copies_with_equal_raw_data'] += 1 if same else 0
        if same:
            diff = grids_agree(grid2, grid3)
            if diff is not None:
                add('differs-from-conversion-of-written-and-read-back-copy', 'atm%d' % atm,
                    'the edited object and its written / re-read copy hold the same raw data, their grids differ: %s'
                    % diff)
    if stats is not None:
        stats['grids_history_' + edit[0]] += 1
        if not first:
            stats['grids_history_not_converted_before'] += 1
    outcome = 'atm%d|%s|%s' % (atm, 'truncated' if ntrunc else 'level', 'VIOLATION' if out else 'ok')
    return out, outcome, nontrivial


def history_surfaces(ncol):
    """Surface assignments a history starts from: all '= top' and a mixed one, assigned through the surface setter;
    surfaces exactly as the constructor left them (None = never assigned); and the last with one column lowered."""
    return ((1,) * ncol, mixed_surfaces(ncol), (None,) * ncol, ((2,) + (None,) * (ncol - 1)))


def mixed_surfaces(ncol):
    return tuple((1, 2, 5, 0, 3, 4)[i % 6] for i in range(ncol))


# ---------------------------------------------------------------------------------------------------------
# the explored space

def opt_product(ctx, atms, orders, angles, bmaps, routes=('direct',)):
    for atm in atms:
        for order in orders:
            if order == 'dmplex' and not ctx.dmplex_ok:
                continue
            for angle in angles:
                for bk in bmaps:
                    for route in routes:
                        if route == 'atm%d' % atm or (route == 'conv03' and ctx.conv0 != 0):
                            continue
                        yield atm, order, angle, bk, route


RECT = [('rect', nx, ny, nz) for nz in (2, 3, 4) for ny in (1, 2, 3) for nx in (1, 2, 3)]
LIBN = ('lib0', 'lib1', 'lib2', 'lib3')
OWNN = ('c0', 'c1', 'c2', 'c3')
ALL_ORD = (None, 'dmplex')
ALL_ATM = (0, 1, 2)


ROUTES = ('atm0', 'atm1', 'atm2', 'file0', 'file1', 'file2', 'order', 'conv03')


def U(desc, naming, transform, surf, atms=ALL_ATM, orders=ALL_ORD, angles=ANGLES, bmaps=('none', 'full'),
      routes=('direct',)):
    return {'desc': desc, 'naming': naming, 'transform': transform, 'surf': surf, 'atms': tuple(atms),
            'orders': tuple(orders), 'angles': tuple(angles), 'bmaps': tuple(bmaps), 'routes': tuple(routes)}


def units(tier):
    us = []
    thorough = tier == 'thorough'
    bm3 = ('none', 'full', 'part')
    for desc in RECT:
        ncol = desc[1] * desc[2]
        for naming in LIBN:
            for atm in ALL_ATM:
                if thorough:
                    mode = 'prod' if ncol <= 4 else 'k2'
                    nchunk = 2 if ncol == 9 else 1
                    for chunk in range(nchunk):
                        us.append(dict(U(desc, naming, 'id', mode, atms=(atm,), bmaps=bm3), chunk=(chunk, nchunk)))
                elif desc[3] < 4 or naming == 'lib0':
                    # quick: the deepest shapes under one convention; dmplex (same lists as layer/column on
                    # four-sided columns) under convention 0 only
                    mode = 'prod' if ncol <= 2 else 'k1'
                    # and all three permeability angles there too (the direction does not depend on names)
                    us.append(U(desc, naming, 'id', mode, atms=(atm,),
                                orders=ALL_ORD if naming == 'lib0' else (None,),
                                angles=ANGLES if naming == 'lib0' else (30.0,)))
        # every surface product once more at a single option setting in the quick tier
        if not thorough and 2 < ncol <= 4:
            us.append(U(desc, 'lib0', 'id', 'prod', atms=(1,), orders=(None,), angles=(0.0,), bmaps=('none',)))
        if not thorough and ncol > 4 and desc[3] == 3:
            us.append(U(desc, 'lib0', 'id', 'k2', atms=(1,), orders=(None,), angles=(0.0,), bmaps=('none',)))
        for tr in TRANSFORMS[1:]:
            if thorough:
                for naming in LIBN:
                    us.append(U(desc, naming, tr, 'k1'))
            elif desc[3] == 3:
                us.append(U(desc, 'lib0', tr, 'k1', orders=(None,), bmaps=('none',)))
        # the route by which atmosphere type, block order and convention were reached
        for naming in (LIBN if thorough else (('lib0',) if desc[3] < 4 else ())):
            us.append(U(desc, naming, 'id', 'k1', orders=ALL_ORD if thorough else (None,), angles=(0.0,),
                        bmaps=('none', 'full') if thorough else ('none',), routes=ROUTES))
        # "arbitrary spacings": the same shapes at laboratory and regional length scales
        if thorough or desc[3] < 4:
            for f in SCALES:
                for atm in ALL_ATM:
                    us.append(U(('rects',) + desc[1:] + (f,), 'lib0', 'id', 'k1', atms=(atm,), orders=(None,),
                                angles=ANGLES if thorough else (0.0,),
                                bmaps=('none', 'full') if thorough else ('none',)))
        # an exact 0.0 as a legal elevation: at the top, inside a layer, on a layer boundary, above the top layer;
        # surfaces 0.0 and -0.0 join the alphabet
        if thorough or desc[3] < 4:
            for z0 in Z0S:
                for naming in (('lib0', 'lib2') if thorough else ('lib0',)):
                    us.append(U(desc + (z0,), naming, 'id', 'k2z' if thorough else 'k1z',
                                orders=(None,), angles=(0.0,),
                                bmaps=('none', 'full') if thorough else ('none',)))
        # layer centres off the mid-point: one layer, all layers; set in memory, and written and read back
        if thorough or desc[3] < 4:
            for cm in (CENTRES if thorough else ('off1', 'offall')):
                if cm != 'offall' and int(cm[3:]) > desc[3]:
                    continue
                for atm in ALL_ATM:
                    us.append(U(desc, 'lib0', cm, 'k1', atms=(atm,), orders=(None,), angles=(0.0,),
                                bmaps=('none', 'full') if thorough else ('none',),
                                routes=('direct', 'file%d' % atm) + (('atm%d' % ((atm + 1) % 3),) if thorough else ())))
        # histories on one object: convert, edit, convert again
        for naming in (('lib0', 'lib3') if thorough else (('lib0',) if desc[3] < 4 else ())):
            for atm in ALL_ATM:
                us.append(dict(U(desc, naming, 'id', 'hist', atms=(atm,), orders=ALL_ORD if thorough else (None,),
                                 angles=(30.0,) if thorough else (0.0,),
                                 bmaps=('none', 'full') if thorough else ('none',)), history=True))
        # layer_column spelt out, and numeric column names under convention 0
        us.append(U(desc, 'lib0', 'id', 'k1', orders=('layer_column',), angles=(0.0,), bmaps=('none',)))
        for nm in ('c0d', 'c1d', 'c3d'):
            if desc[3] == 2 or thorough:
                us.append(U(desc, nm, 'id', 'k1', orders=(None,), angles=(0.0,), bmaps=('none', 'full')))
    for desc, full in ((('mix',), 'k2'), (('tq',), 'prod'), (('mixr',), 'k2c')):
        for naming in OWNN:
            for atm in ALL_ATM:
                if thorough:
                    us.append(U(desc, naming, 'id', full, atms=(atm,), bmaps=bm3))
                else:
                    us.append(U(desc, naming, 'id', 'k1', atms=(atm,)))
            for tr in TRANSFORMS[1:]:
                if thorough:
                    us.append(U(desc, naming, tr, 'k1'))
                elif naming == 'c3':
                    us.append(U(desc, naming, tr, 'k1', bmaps=('none',)))
            if thorough or naming == 'c0' or (naming == 'c1' and desc != ('mixr',)):
                us.append(U(desc, naming, 'id', 'k1', orders=ALL_ORD if thorough else (None,), angles=(0.0,),
                            bmaps=('none', 'full') if thorough else ('none',), routes=ROUTES))
        for cm in (CENTRES if thorough else ('off2', 'offall')):
            for atm in ALL_ATM:
                us.append(U(desc, 'c0', cm, 'k1', atms=(atm,), orders=(None,), angles=(0.0,),
                            bmaps=('none', 'full') if thorough else ('none',), routes=('direct', 'file%d' % atm)))
        if desc != ('mixr',):
            for f in SCALES:
                us.append(U((desc[0] + 's', f), 'c0', 'id', 'k1', orders=(None,),
                            angles=ANGLES if thorough else (0.0,), bmaps=('none', 'full') if thorough else ('none',)))
            dz = -8.0 if desc == ('mix',) else -3.0          # 0.0 falls inside layer 2
            us.append(U(desc + (dz,), 'c0', 'id', 'k2z' if thorough else 'k1z', orders=(None,), angles=(0.0,),
                        bmaps=('none', 'full') if thorough else ('none',)))
        for naming in (('c0', 'c3') if thorough else ('c0',)):
            for atm in ALL_ATM:
                us.append(dict(U(desc, naming, 'id', 'hist', atms=(atm,), orders=ALL_ORD if thorough else (None,),
                                 angles=(30.0,) if thorough else (0.0,),
                                 bmaps=('none', 'full') if thorough else ('none',)), history=True))
        if not thorough:
            us.append(U(desc, 'c0', 'id', full, atms=(1,), orders=(None,), angles=(0.0,), bmaps=('none',)))
        for nm in ('c0d', 'c1d', 'c3d'):
            us.append(U(desc, nm, 'id', 'k1', orders=(None,), angles=(0.0,), bmaps=('none', 'full')))
    # g7 and refinements
    for naming in ('c0', 'c2', 'c3'):
        for tr in TRANSFORMS:
            if thorough or naming == 'c0' or tr == 'id':
                for atm in ALL_ATM:
                    us.append(U(('g7',), naming, tr, 'base', atms=(atm,), bmaps=bm3 if thorough else ('none', 'full'),
                                angles=ANGLES if (thorough or (naming == 'c0' and tr in ('id', 'rot30'))) else (30.0,)))
    us.append(U(('g7',), 'c0', 'id', 'base', orders=ALL_ORD, angles=(0.0,), bmaps=('none',), routes=ROUTES))
    for atm in (ALL_ATM if thorough else (1,)):
        one = dict(atms=(atm,), orders=(None,), angles=(0.0,), bmaps=('none',))
        if thorough:
            for chunk in range(12):
                us.append(dict(U(('g7',), 'c0', 'id', 'k2c', **one), chunk=(chunk, 12)))
            for chunk in range(6):
                us.append(dict(U(('g7p',), 'c0', 'id', 'k1', **one), chunk=(chunk, 6)))
        else:
            for chunk in range(6):
                us.append(dict(U(('g7',), 'c0', 'id', 'k1', **one), chunk=(chunk, 6)))
    for desc in (('g7p',), ('g7r',)):
        for naming in (('c0', 'c2', 'c3') if thorough else ('c2',)):
            for tr in (TRANSFORMS if thorough else (('id', 'rot30') if desc == ('g7p',) else ('rot30',))):
                us.append(U(desc, naming, tr, 'base', bmaps=('none', 'full'),
                            angles=ANGLES if thorough else (30.0,)))
    for nm in ('c0d', 'c3d'):
        us.append(U(('g7',), nm, 'id', 'base', orders=(None,), angles=(0.0,), bmaps=('none',)))
    # shipped geometries exactly as read from their files (own names, surfaces, options)
    for name in (('g1', 'g2', 'g3', 'g4', 'g5', 'g6', 'g7') if thorough else ('g1', 'g5', 'g7')):
        for tr in (('id', 'rot30', 'shift', 'tiltx') if thorough else ('id',)):
            for atm in ALL_ATM:
                us.append(U(('file', name), 'file', tr, 'file', atms=(atm,), orders=(None,), angles=('file',),
                            bmaps=('none', 'full') if (thorough or name == 'g7') else ('none',)))
    return us


def case_dict(unit, atm, order, angle, bk, sidx, route='direct'):
    return {'desc': list(unit['desc']), 'naming': unit['naming'], 'transform': unit['transform'], 'atm': atm,
            'order': order, 'angle': angle, 'blockmap': bk, 'surfaces': None if sidx is None else list(sidx),
            'route': route}


def run_history_unit(unit, tier, rec, ctx, stats):
    desc = tuple(unit['desc'])
    head = (desc, unit['naming'], 'history')
    for sidx in history_surfaces(ctx.ncol):
        for atm, order, angle, bk, route in opt_product(ctx, unit['atms'], unit['orders'], unit['angles'],
                                                        unit['bmaps']):
            for edit in (edits_of(ctx) if None not in sidx else [('none',)] + structure_edits(ctx)):
                for first in (True, False):
                    # (with a block mapping - thorough only - the object is always converted before the edit and no
                    # copy is written: the mapping does not enter the geometry)
                    if (edit[0] == 'none' or bk != 'none') and not first:
                        continue
                    viol, outcome, nontrivial = eval_history(desc, unit['naming'], atm, order, angle, bk, sidx, edit,
                                                             stats, first, bk == 'none')
                    rec.case((head, atm, order, angle, bk, sidx, edit, first), nontrivial=nontrivial,
                             outcome=outcome)
                    for sig, what in viol:
                        rec.violation(sig, what, dict(case_dict(unit, atm, order, angle, bk, sidx), edit=list(edit),
                                                      first=first))


def run_unit(unit, tier, rec):
    from collections import Counter
    core.load_library()
    desc = tuple(unit['desc'])
    ctx = Ctx(desc, unit['naming'], unit['transform'])
    if ctx.geo is None:
        rec.count('units_skipped_naming_cannot_hold_geometry', 1)
        return
    if unit.get('history'):
        stats = Counter()
        run_history_unit(unit, tier, rec, ctx, stats)
        for k, v in stats.items():
            rec.count(k, v)
        rec.count('units', 1)
        rec.count('units_%s' % desc[0], 1)
        return
    ssets = surface_sets(unit['surf'], ctx.ncol, ctx.pairs, len(ctx.alphabet))
    if 'chunk' in unit:
        k, n = unit['chunk']
        ssets = ssets[k::n]
    angles = unit['angles']
    if angles == ('file',):
        angles = (float(ctx.geo.permeability_angle),)
    stats = Counter()
    head = (desc, unit['naming'], unit['transform'])
    sampled = False
    for sidx in ssets:
        for atm, order, angle, bk, route in opt_product(ctx, unit['atms'], unit['orders'], angles, unit['bmaps'],
                                                        unit.get('routes', ('direct',))):
            viol, outcome, nontrivial = eval_case(ctx, atm, order, angle, bk, sidx, stats, route)
            rec.case((head, atm, order, angle, bk, sidx, route), nontrivial=nontrivial, outcome=outcome)
            if route != 'direct':
                stats['grids_route_' + route.rstrip('012')] += 1
            for sig, what in viol:
                rec.violation(sig, what, case_dict(unit, atm, order, angle, bk, sidx, route))
            if not sampled and sidx is not None and any(v != 1 for v in sidx):
                sampled = True
                rec.sample({'case': case_dict(unit, atm, order, angle, bk, sidx, route), 'outcome': outcome,
                            'columns': ctx.ncol, 'layers': ctx.st.nlay - 1,
                            'announced_blocks': len(ctx.geo.block_name_list),
                            'announced_connections': len(ctx.geo.block_connection_name_list)})
    for k, v in stats.items():
        rec.count(k, v)
    rec.count('units', 1)
    rec.count('units_%s' % desc[0], 1)


def finalize(rec, tier):
    c = rec.counters
    need = ['blocks', 'connections_atmosphere', 'connections_vertical', 'connections_horizontal',
            'connections_beside_truncated']
    missing = [k for k in need if not c.get(k)]
    if missing and not rec.viol:
        # (with violations present an empty class is a consequence - e.g. every horizontal connection misnamed)
        raise core.HarnessError('nothing compared for %s' % missing)
    return {'dimensions': {
        'geometry x naming x atmosphere type x block order x permeability angle x blockmap': 'crossed',
        'surfaces': 'crossed (6^n) for <= 4 columns%s; base + <= 2 deviating columns (all pairs; connected pairs '
                    'on g7 and the refined hand-made mesh) otherwise%s'
                    % (('', '') if tier == 'thorough' else
                       (' at one option setting, <= 2 columns under every option', ', k <= 1 under every option')),
        'transforms (rot90, rot30, shift, tiltx, tilty)': 'crossed with the options, surfaces k <= 1 '
                                                          '(base surface on g7 and refinements)',
        'shipped geometries as read': 'g1..g7 (also rotated 30, shifted, tilted)' if tier == 'thorough' else 'g1, g5, g7',
        'length scale': 'x 1e-4, 1e-3, 1e-2, 1, 1e2, 1e4 on the rectangular shapes and the hand-made meshes',
        'absolute placement': 'an exact 0.0 at the top / inside a layer / on a layer boundary / above the top layer, with 0.0 '
        'and -0.0 as surface values',
        'layer centres': 'mid-point | one layer off the mid-point | all layers off; in memory and read from a file',
        'history on one object ([convert,] one edit, convert; the grid after the edit judged, and the grid of the written / '
        're-read copy)': 'every edit of the alphabet (geometry edits; layers replaced / copied / refined; layers and columns '
        'renamed incl. swaps and cycles; surfaces re-assigned / fitted; translate) x converted before or not x atmosphere type x '
        '2 assigned + 2 as-constructed surface states on the rectangular and hand-made meshes',
        'route to the final atmosphere type / block order / convention': 'direct | assigned from each other type | '
        'written with each type, read back, assigned | other block order then assigned | convention 0 then 3 assigned; '
        'crossed with atmosphere type x surfaces k <= 1 on the rectangular and hand-made meshes (base surface on g7)'}}


def replay(case):
    core.load_library()
    if case.get('edit') is not None:
        sidx = case['surfaces']
        viol, outcome, nontrivial = eval_history(tuple(case['desc']), case['naming'], case['atm'], case['order'],
                                                 case['angle'], case['blockmap'], tuple(sidx), tuple(case['edit']),
                                                 None, case.get('first', True))
        return viol
    ctx = Ctx(tuple(case['desc']), case['naming'], case['transform'])
    if ctx.geo is None:
        return []
    sidx = case['surfaces']
    viol, outcome, nontrivial = eval_case(ctx, case['atm'], case['order'], case['angle'], case['blockmap'],
                                          None if sidx is None else tuple(sidx), None, case.get('route', 'direct'))
    return viol


BOUNDS = {
    'quick': {'rectangular': '27 shapes x 3 atmosphere types x {no map, full map}: convention 0 x {None, dmplex} x 3 angles; '
                             'conventions 1..3 (nz <= 3) x None x angle 30; surfaces 6^n for n <= 2, k <= 1 otherwise; '
                             '6^n (n <= 4) and k <= 2 (nz = 3) at one option setting',
              'transforms': 'nz = 3 shapes and the hand-made meshes, one convention, k <= 1',
              'routes': 'nz <= 3 shapes (convention 0), mix / tq (conventions 0, 1), mix refined (0): 8 routes x 3 atmosphere '
                        'types x k <= 1; g7 base surface',
              'length scales': 'nz <= 3 shapes, mix, tq x scales 1e-4, 1e-3, 1e-2, 1e2, 1e4 (all spacings, origin, elevations), k <= 1, '
                               '3 atmosphere types',
              'exact zero': 'nz <= 3 shapes x 6 vertical origins (0.0 at the top, inside layer 1, at its bottom, inside layer 2, '
                            'at its bottom, above the top layer), mix / tq shifted so that 0.0 is inside layer 2: alphabet + {0.0, -0.0}, '
                            'k <= 1 and every uniform assignment, 3 atmosphere types',
              'layer centres': 'nz <= 3 shapes, mix / tq / mix refined: centre = bottom + 0.4 thickness in layer 1 (2 on the hand-made '
                               'meshes) or in all layers, set in memory and written / read back, k <= 1, 3 atmosphere types',
              'histories': 'nz <= 3 shapes and mix / tq / mix refined, convention 0: every edit of the alphabet (each quad x node '
                           'split, each column centre, each node, rotate, translate, each column x 2 surfaces, snap, each column '
                           'refined, none; 4 re-layerings with add_layers, 2 copy_layers_from, 4 rename_layer, 3 rename_column, '
                           '3 refine_layers, 2 assignments of every surface, fit_surface, translate in z) x {converted before '
                           'the edit, not} x 3 atmosphere types x 2 surface assignments; the 20 layer / name / surface edits and '
                           'none also from surfaces as constructed (all; one column lowered); every edited geometry also '
                           'written, read back and converted',
              'irregular': 'mix (6 columns), tq (4 columns), mix refined (12 columns): k <= 1 under every option, '
                           'k <= 2 / 6^4 / connected pairs at one setting; g7: base under the options, k <= 1 at atmosphere type 1; '
                           'g7 refined (all / part): base',
              'files': 'g1, g5, g7 x 3 atmosphere types'},
    'thorough': {'rectangular': '27 shapes x 4 conventions x 3 atmosphere types x {None, dmplex} x 3 angles x {no map, full, partial}; '
                                'surfaces 6^n for n <= 4, k <= 2 for 6 and 9 columns',
                 'transforms': 'every shape x 4 conventions x all options, k <= 1',
                 'routes': 'every rectangular shape x 4 conventions, mix / tq / mix refined x 4 conventions: 8 routes x 3 atmosphere '
                           'types x {None, dmplex} x {no map, full} x k <= 1; g7 base surface',
                 'length scales': 'every shape, mix, tq x 5 scales x 3 atmosphere types x 3 angles x {no map, full}, k <= 1',
                 'exact zero': 'every shape x 6 vertical origins x conventions 0, 2 x {no map, full}; alphabet + {0.0, -0.0}, '
                               'k <= 2 and every uniform assignment',
                 'layer centres': 'every shape and hand-made mesh: each single layer and all layers off the mid-point, in memory, '
                                  'written / read back, and with the atmosphere type assigned afterwards; k <= 1',
                 'histories': 'every shape and hand-made mesh, conventions 0 and 3: every edit (as quick) x {converted before, not; with a block map: before only, no copy} x '
                              '3 atmosphere types x {None, dmplex} x {no map, full map} x 2 surface assignments (+ 2 as-constructed '
                              'starts for the layer / name / surface edits), angle 30; every edited geometry also written, read '
                              'back and converted',
                 'irregular': 'mix k <= 2, tq 6^4, mix refined connected pairs, under every option; g7: base under every option and '
                              'transform, connected pairs (k <= 2) per atmosphere type; g7 partly refined k <= 1; g7 refined base',
                 'files': 'g1..g7 x {as read, rotated 30, shifted, tilted} x 3 atmosphere types x {no map, full map}'}}
TECHNIQUE = ('bounded exhaustive enumeration (geometry family x options x surface products / <= k deviations) of the real '
             'fromgeo against an exact Fraction reference computed from raw node, column, layer and surface data')
LEVEL_TEXT = ('Every configuration of the stated finite family is converted by the real t2grid.fromgeo and every block and '
              'connection of every resulting grid is compared with an exact reference; nothing is sampled, so a change to a '
              'comparison, a height, a distance or a sign in the conversion meets a configuration on each side of it.')
LEVEL_NOTE = ('Trusted: ref/geo_c04.py. Geometries outside the family (other shapes, surfaces between the alphabet values, '
              'more than two columns deviating on the larger meshes) are not claimed; tilted cosines are not asserted.')
