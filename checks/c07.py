"""C07 - what a listing shows at a given time does not depend on how you navigated there.

E1 explicit-state BFS to closure on the real t2listing object, one search per (shipped listing with >= 2
result times, truncation of it to k result times).  t2listing objects hold an open file and bound methods,
so a state is restored by replaying its operation history on a fresh listing (the replay mode of
mc/engine_seq.py, re-implemented here so that one large search can be split over several workers - see
search()).

Second-object dimension (searches '<file>@k+by', k = 2; thorough also 3): the same search with a reduced cursor
alphabet plus the actions 'open a second listing' (a second reader of the very file under test, or the smallest
shipped listing of each other simulator family) and 'second listing .next()'; the second object is part of the
state; every state is restored through the real constructor.  Judged by effect only: after every action the
listing under test, and the second listing, must each show what a fresh listing at its index showed - snapshots
taken before any second object existed.  Signatures of this dimension end in |second-object=<same-file|other-family>.

Derived listings (searches '<file>@k+del:j:b', k = min(N, 3)): the file with the block of one table (b-th table after
the first) deleted from its (j+1)-th result set - a listing in which a later result set does not print a table the
first one prints (TOUGH2 family and AUTOUGH2; found by the independent scan listkit.removable_table_blocks).  Same
oracle: whatever the reader shows for the unprinted table at that index, it must be what a fresh listing positioned
there shows.  Reduced cursor alphabet; signatures end in |table-not-printed-in-a-later-result-set.

Oracle (the property statement):
  invariant   in every reached state the reported index, time, step, the SET of tables offered (table_names and
              the table attributes) and every table (values, row and column names) equal those of a genuinely freshly opened listing with `index = i` assigned directly
              (k reference observations per search, taken once);
  refinement  on every transition the resulting index is in the set ref/navmodel.py accepts (nearest result
              set with ties as a set); next/prev return 'moved' and never pass either end; no exception;
              no non-termination (readline budget).
"""
import os

import math

from mc import core
from ref import navmodel, listkit

ID = 'C07'
LEVEL = 'model_checking'
ENGINE = 'E1'
EXHAUSTIVE = True
RULE = ('per (listing, truncation to k result times): breadth-first search to closure from the freshly opened '
        'listing over the alphabet {first, last, next, prev, index=i for every i in [-k, k-1], time=t and step=s '
        'for every exact value, every midpoint of consecutive values and its two floating-point neighbours, one '
        'value below the first and one above the last, history(single item), history(one item in each of the first '
        'two tables), history(one item per table), history(a column that does not exist - may fail loudly), history(single item, start_datetime given), look(rows: read '
        'first/middle/last row of every table by name, by row number and by negative row number, and two columns, through '
        'the table accessors), look(reductions property)}; a state is the whole reader object (a digest of every attribute '
        'including which arrays are shared between attributes - hence index, time, step, all table data) plus the file '
        'offset; every (state, action) pair is one transition executed on the real '
        'reader and compared with the index model and with a freshly opened listing positioned directly. Second-object '
        'searches (file cut to 2, thorough also 3, result times): alphabet {first, last, next, prev, index in {0, middle, last}, '
        'time=last, step=first, history(single), history(all), open second listing (same file / smallest listing of each other '
        'simulator family), second listing.next()}, the second listing being part of the state; to closure')
ASSUMPTIONS = ['index= is explored for the arguments a Python sequence of k result sets accepts (-k..k-1); other '
               'arguments are outside the documented contract',
               'time=/step= accept any result set whose distance is within the rounding of one double subtraction '
               '(relative 4 x 2^-53) of the smallest distance: the documentation says "nearest" and no more',
               'truncated copies are cut at the first line of the next result-set header found by the independent '
               'scan of ref/navmodel.py; a listing ending there is what an interrupted run leaves behind',
               'a fresh listing for replay is an independent deep copy of a pristine freshly opened listing (own '
               'file handle); the copy is compared field by field with a second genuine open once per file, every '
               'new state is re-derived once on a genuinely fresh open, and every violation is re-executed on a '
               'genuinely fresh open before it is reported',
               'no interference is judged by effect only: a second live listing (same file or another simulator family) may share '
               'anything with the listing under test as long as both keep showing what their fresh snapshots showed; at most one '
               'second object per search path, never closed',
               'looking is an action, not part of the silent observation: what look(rows) reads through the accessors is compared '
               'with the same reads on a fresh listing at that index; a history() request for a column that does not exist may '
               'raise, but like every action it must leave the reader showing what a fresh listing at its index shows',
               'a listing in which a later result set does not print a table that the first result set prints is a legal input '
               '(the reader accepts it, and already copes with the mirror case of a table first printed later); what it shows for '
               'that table there is not prescribed, only that it does not depend on the route (TOUGH+ not derived)',
               'history return values are not judged here (C06 does); only that the call returns and leaves the '
               'reader showing what it showed',
               'non-termination = more than 20 x lines x (result sets + 2) readline calls in one library call, or '
               'more than 4 x lines + 1000 consecutive reads at end of file']
BOUNDS = {'quick': {'derived_listings': 'file cut to min(N,3) result times, each later table block deleted from the 2nd result set', 'second_object_searches': 'every file cut to 2 result times; one second object per path', 'state_cap': '20 x result times + 60 states per search (never reached on the unchanged tree)', 'files': 'shipped listings with >= 2 result times and size < 300 kB, plus those < 500 kB that mix short and full result sets or whose set of printed tables changes between result times',
                    'truncations': 'all k in 1..N for N <= 6, otherwise k in {1, 2, N}', 'depth': 'to closure'},
          'thorough': {'derived_listings': 'file cut to min(N,3) result times, each later table block deleted from the 2nd and from the last result set',
                       'second_object_searches': 'every file cut to 2 and to 3 result times; one second object per path',
                       'state_cap': '20 x result times + 60 states per search (never reached on the unchanged tree)',
                       'files': 'all shipped listings with >= 2 result times',
                       'truncations': 'all k in 1..N for N <= 6, otherwise k in {1, 2, N-1, N}', 'depth': 'to closure'}}
TECHNIQUE = ('explicit-state breadth-first search to closure over navigation call sequences on the real t2listing '
             'object, each transition compared with an index-arithmetic reference model and with a freshly opened '
             'listing positioned directly')
LEVEL_TEXT = ('The reachable states of the reader (index, time, step, table contents, file offset) under the complete '
              'navigation alphabet are enumerated to closure for every shipped multi-time listing and its truncations, '
              'so sequences of every length are covered, not only those up to a depth.')
LEVEL_NOTE = ('Trusted: ref/navmodel.py (result-set scan and nearest-index arithmetic). The time/step arguments are '
              'the stated finite alphabet (exact values, midpoints +- 1 ulp, outside both ends), not all reals.')

MAX_DEPTH = 40
SHARD_TRANSITIONS = 2500
START_DATETIME = '1999-12-31T23:59:58.750001'
STATE_CAP_PER_RESULT_SET = 20      # the unchanged tree has 6-8 states per result set
SPEC = {'element': 'e', 'element1': 'e1', 'element2': 'e2', 'connection': 'c', 'primary': 'p', 'generation': 'g'}

_pristine = listkit.Pristine()


def truncations(n, tier):
    if n <= 6:
        return list(range(1, n + 1))
    if tier == 'quick':
        return sorted(set([1, 2, n]))
    return sorted(set([1, 2, n - 1, n]))


def units(tier):
    us = []
    for key, path, size in listkit.shipped():
        sc = listkit.scan_of(path)
        n = len(sc.full)
        if n < 2:
            continue
        # quick: files < 300 kB, plus (< 500 kB) the listings that mix short and full result sets - the only
        # ones where time= / step= can confuse the two kinds of result set (AUTOUGH2/3 is the only shipped one) - and
        # those whose set of printed tables is not the same at every result time (TOUGH2/11: a table at the last only)
        mixed = len(sc.sets) > n
        if tier == 'quick' and not (size < 300000 or (size < 500000 and (mixed or listkit.tables_vary(path)))):
            continue
        for k in truncations(n, tier):
            # a search has about 6k states x (10k + 7) actions; large ones are split into shards
            est = 6 * k * (10 * k + 7)
            nshards = max(1, min(16, int(math.ceil(est / float(SHARD_TRANSITIONS)))))
            for sh in range(nshards):
                us.append((key, k, sh, nshards, 'main'))
        # the second-object dimension: searches in which another listing is opened and moved between the actions
        # of the listing under test (small truncations only: the space is a product of two cursors)
        for k in ([2] if tier == 'quick' else sorted(set([2, min(n, 3)]))):
            us.append((key, k, 0, 1, 'by'))
        # listings in which a LATER result set does not print a table the first one prints (derived copies: the file
        # cut to min(N, 3) result times with one table block of the second result set deleted - thorough: also of
        # the last one): a table that is not printed must not keep the values of whichever result set was read before
        kk = min(n, 3)
        blocks = listkit.removable_table_blocks(path)
        fulls = [b for b in blocks][:kk]
        for j in ([1] if tier == 'quick' else sorted(set([1, kk - 1]))):
            for bi in range(len(fulls[j]) if j < len(fulls) else 0):
                us.append((key, kk, 0, 1, 'del:%d:%d' % (j, bi)))
    return us


def family_of(key):
    top = key.split('/')[0]
    return 'AUTOUGH2' if top == 'AUTOUGH2' else ('TOUGH+' if top == 'TOUGHplus' else 'TOUGH2-like')


_reps = {}


def representatives():
    """{family: key of the smallest shipped listing of that family with >= 2 result times}"""
    if not _reps:
        for key, path, size in sorted(listkit.shipped(), key=lambda e: (e[2], e[0])):
            if len(listkit.scan_of(path).full) >= 2:
                _reps.setdefault(family_of(key), key)
    return _reps


# ---------------------------------------------------------------------------------------------------

class Ctx(object):
    """Everything fixed for one search: the file, the model, the reference observations."""

    def __init__(self, key, k, mode='main'):
        self.key, self.k, self.mode = key, k, mode
        self.src = listkit.path_of(key)
        self.path = listkit.truncated_copy(self.src, k, tag='c07')
        self.sig_suffix = ''
        if mode.startswith('del:'):
            j, bi = [int(x) for x in mode.split(':')[1:]]
            block = listkit.removable_table_blocks(self.src)[j][bi]
            self.trunc_path = self.path
            self.path = listkit.copy_without_block(self.path, block, 'c07del')
            self.removed = (j, block[0])
            self.sig_suffix = '|table-not-printed-in-a-later-result-set'
        sc = listkit.scan_of(self.path)
        self.scan = sc
        full = sc.full
        self.model = navmodel.NavModel([s.time for s in full], [s.step for s in full])
        self.refs = None
        self.sim = None
        self.seed_name = '%s@%d%s' % (key, k, '+by' if mode == 'by' else ('+' + mode if mode.startswith('del:') else ''))
        self.model_cache = {}
        self.bystanders = None
        self.force_genuine = False

    def prepare_bystanders(self):
        """{label: (path, snapshots of a fresh listing of it at each index)} - taken, like the references of the
        listing under test, before any second object exists in this search.  Labels: 'same-file' (a second reader
        of the very file under test) and 'other-family:<family>' (the smallest shipped listing of each other
        simulator family, cut to two result times)."""
        if self.bystanders is None:
            self.references()
            by = {'same-file': (self.path, self.refs)}
            for fam, rkey in sorted(representatives().items()):
                if fam == family_of(self.key):
                    continue
                rpath = listkit.truncated_copy(listkit.path_of(rkey), 2, tag='c07by')
                refs = []
                for i in range(len(listkit.scan_of(rpath).full)):
                    lst = listkit.open_listing(rpath)
                    lst._file.arm()
                    with listkit.quiet():
                        lst.index = i
                    lst._file.disarm()
                    refs.append(listkit.observe(lst, names=True))
                    listkit.close_listing(lst)
                by['other-family:' + fam] = (rpath, refs)
            self.bystanders = by
        return self.bystanders

    def references(self):
        """Observation of a genuinely freshly opened listing positioned directly at each index."""
        if self.refs is None:
            refs, looks = [], []
            for i in range(self.model.n):
                lst = listkit.open_listing(self.path)
                self.sim = lst.simulator
                lst._file.arm()
                try:
                    with listkit.quiet():
                        lst.index = i
                except listkit.BudgetExceeded as e:
                    listkit.close_listing(lst)
                    raise listkit.OpenFailed('index-nontermination', 'index = %d on a freshly opened %s does not '
                                             'terminate: %s' % (i, self.seed_name, e))
                except (core.CaseTimeout, core.HarnessError):
                    raise
                except Exception as e:
                    listkit.close_listing(lst)
                    raise listkit.OpenFailed('index-raises-%s' % type(e).__name__,
                                             'index = %d on a freshly opened %s raised %r' % (i, self.seed_name, e))
                lst._file.disarm()
                refs.append(listkit.observe(lst, names=True))
                looks.append(listkit.read_accessors(lst))
                listkit.close_listing(lst)
            self.refs = refs
            self.look_refs = looks
        return self.refs

    def datetimes_representable(self):
        """False when the listing's times carry START_DATETIME beyond what a datetime can hold (steady-state runs
        reach 1e15 s): history(start_datetime=...) can then only fail loudly and is not an action of the alphabet."""
        import datetime
        try:
            for s_ in self.scan.sets:
                datetime.datetime.fromisoformat(START_DATETIME) + datetime.timedelta(seconds=s_.time)
            return True
        except OverflowError:
            return False

    def alphabet(self, tablenames):
        if self.mode == 'by':
            return self.alphabet_with_bystanders(tablenames)
        if self.mode.startswith('del:'):
            # reduced cursor alphabet; histories only of the first table (always printed): what history() does with a
            # table that a result set does not print is C06's business, not a navigation question
            return [op for op in self.alphabet_with_bystanders(tablenames, second_objects=False)
                    if not (op[0] == 'history' and op[1] not in ('single', 'single-datetime'))]
        return self.full_alphabet(tablenames)

    def alphabet_with_bystanders(self, tablenames, second_objects=True):
        """Reduced cursor alphabet for the listing under test, plus the second-object actions."""
        m = self.model
        ops = [['first'], ['last'], ['next'], ['prev']]
        for j in sorted(set([0, m.n // 2, m.n - 1])):
            ops.append(['index', j, 'nonnegative'])
        ops.append(['time', m.times[-1], 'exact'])
        ops.append(['step', m.steps[0], 'exact'])
        ops.append(['history', 'single'])
        if len(tablenames) >= 2:
            ops.append(['history', 'all'])
        if self.datetimes_representable():
            ops.append(['history', 'single-datetime'])
        ops.append(['look', 'rows'])
        if second_objects:
            for label in sorted(self.prepare_bystanders()):
                ops.append(['bystander', 'open', label])
            ops.append(['bystander', 'next'])
        return ops

    def full_alphabet(self, tablenames):
        m = self.model
        ops = [['first'], ['last'], ['next'], ['prev']]
        for j in m.valid_index_arguments():
            ops.append(['index', j, 'negative' if j < 0 else 'nonnegative'])
        for name, args, vals in (('time', m.time_arguments(), m.times), ('step', m.step_arguments(), m.steps)):
            lo, hi = min(vals), max(vals)
            for a in args:
                if a < lo:
                    cls = 'before-first'
                elif a > hi:
                    cls = 'after-last'
                elif a in vals:
                    cls = 'exact'
                else:
                    cls = 'between'
                ops.append([name, a, cls])
        ops.append(['history', 'single'])
        if len(tablenames) >= 3:
            ops.append(['history', 'two'])
        if len(tablenames) >= 2:
            ops.append(['history', 'all'])
        # a history request for a column that does not exist may fail loudly - and must leave the reader as it was
        ops.append(['history', 'unknown-column'])
        if self.datetimes_representable():
            ops.append(['history', 'single-datetime'])      # the documented start_datetime option
        # looking is an action too: reading rows and columns through the table accessors, and reading the
        # 'reductions' property, must not change what the reader shows
        ops.append(['look', 'rows'])
        ops.append(['look', 'reductions'])
        return ops


class State(object):
    def __init__(self, ctx, lst, genuine=False):
        self.ctx = ctx
        self.lst = lst
        self.hist = []
        self.genuine = genuine
        self.by = None            # (label, second listing object alive next to the one under test)


def close_state(st):
    listkit.close_listing(st.lst)
    if st.by is not None:
        listkit.close_listing(st.by[1])
        st.by = None


def enabled(hist, op):
    """At most one second object per search path: it can be opened once, and moved once it exists."""
    if op[0] != 'bystander':
        return True
    has = any(o[0] == 'bystander' and o[1] == 'open' for o in hist)
    return (not has) if op[1] == 'open' else has


def history_selection(lst, which):
    names = list(lst._tablenames)
    if which == 'unknown-column':
        return (SPEC[names[0]], 0, 'no such column'), names[:1]
    if which == 'single-datetime':
        which = 'single'
    if which == 'single':
        t = lst._table[names[0]]
        return (SPEC[names[0]], 0, t.column_name[0]), names[:1]
    use = names[:2] if which == 'two' else names
    sel = []
    for tn in use:
        t = lst._table[tn]
        sel.append((SPEC[tn], t.row_name[t.num_rows // 2], t.column_name[-1]))
    return sel, use


def accepted(ctx, op, i0):
    """(set of acceptable resulting indices, 'moved' flag or None) from the reference model (memoised)."""
    name = op[0]
    k = (name, op[1] if len(op) > 1 and name != 'history' else None, i0 if name in ('next', 'prev', 'history', 'look') else None)
    hit = ctx.model_cache.get(k)
    if hit is not None:
        return hit
    m = ctx.model
    moved = None
    if name == 'first':
        acc = m.first()
    elif name == 'last':
        acc = m.last()
    elif name == 'next':
        acc, moved = m.next(i0)
    elif name == 'prev':
        acc, moved = m.prev(i0)
    elif name == 'index':
        acc = m.set_index(op[1])
    elif name == 'time':
        acc = m.set_time(op[1])
    elif name == 'step':
        acc = m.set_step(op[1])
    else:
        acc = {i0}
    ctx.model_cache[k] = (acc, moved)
    return acc, moved


def apply_op(st, op, judge=True):
    """apply_op_plain with the signature suffix of the search's input class (derived listings)."""
    viol = apply_op_plain(st, op, judge)
    sfx = st.ctx.sig_suffix
    return [(sig + sfx, what) for sig, what in viol] if (sfx and viol) else viol


def apply_op_plain(st, op, judge=True):
    """Apply one action to the real reader and (judge=True) judge the transition.  -> [(sig, what)]
    judge=False is used when a history that was already judged step by step is replayed to restore a state;
    exceptions and non-termination are still reported."""
    ctx, lst = st.ctx, st.lst
    m = ctx.model
    refs = ctx.references()
    sim = lst.simulator
    name = op[0]
    i0 = int(lst._index)
    cls = op[2] if len(op) > 2 else (op[1] if name in ('history', 'look') else '-')
    base = 'C07|%s|' % name
    tail = '|%s|%s' % (cls, sim)
    ret = None
    used = None
    looked = None
    if name == 'bystander':
        v = apply_bystander(st, op, judge)
        if v or not judge:
            return v
        return judge_objects(st, op, i0, sim)
    # signatures of the second-object dimension are kept apart from those of the single-reader searches
    so = ('|second-object=' + st.by[0].split(':')[0]) if st.by is not None else ''
    lst._file.arm()
    try:
        with listkit.quiet():
            if name == 'first':
                lst.first()
            elif name == 'last':
                lst.last()
            elif name == 'next':
                ret = lst.next()
            elif name == 'prev':
                ret = lst.prev()
            elif name == 'index':
                lst.index = op[1]
            elif name == 'time':
                lst.time = op[1]
            elif name == 'step':
                lst.step = op[1]
            elif name == 'history':
                sel, used = history_selection(lst, op[1])
                if op[1] == 'unknown-column':
                    try:
                        lst.history(sel)
                    except listkit.BudgetExceeded:
                        raise
                    except (core.CaseTimeout, core.HarnessError):
                        raise
                    except Exception:
                        pass                      # failing loudly on a column that does not exist is fine
                elif op[1] == 'single-datetime':
                    import datetime
                    lst.history(sel, start_datetime=datetime.datetime.fromisoformat(START_DATETIME))
                else:
                    lst.history(sel)
            elif name == 'look':
                if op[1] == 'rows':
                    looked = listkit.read_accessors(lst)
                else:
                    lst.reductions
            else:
                raise core.HarnessError('unknown op %r' % (op,))
    except listkit.BudgetExceeded as e:
        lst._file.disarm()
        extra = ('|tables=' + '+'.join(used)) if used else ''
        return [('C07|%s|nontermination|%s%s%s' % (name, sim, extra, so),
                 '%s on %s (%d result times) does not terminate: %s; actions %r'
                 % (name, ctx.key, m.n, e, st.hist + [op]))]
    except (core.CaseTimeout, core.HarnessError):
        raise
    except Exception as e:
        lst._file.disarm()
        return [(base + 'raises-%s' % type(e).__name__ + tail + so,
                 '%r raised %r on %s (%d result times) after %r' % (op, e, ctx.key, m.n, st.hist))]
    lst._file.disarm()
    if not judge:
        return []
    out = []
    # refinement: where the model says the action lands
    acc, moved = accepted(ctx, op, i0)
    try:
        idx = int(lst.index)
    except Exception:
        idx = None
    if idx not in acc:
        if name in ('next', 'prev') and idx is not None and not 0 <= idx < m.n:
            clause = 'moves-past-the-end'
        elif name in ('history', 'look'):
            clause = 'changes-the-index'
        else:
            clause = 'wrong-result-set'
        # the cursor arithmetic is the same code for every simulator: no simulator in these signatures
        out.append((base + clause + (tail if name in ('history', 'look') else '|' + cls) + so,
                    '%r from index %d lands on index %r, the model accepts %s (%s, %d result times, after %r)'
                    % (op, i0, idx, sorted(acc), ctx.key, m.n, st.hist)))
        return out
    if moved is not None and bool(ret) != moved:
        out.append((base + 'return-value|' + cls + so,
                    '%s() from index %d of %d returned %r, expected %r (%s)' % (name, i0, m.n, ret, moved, ctx.key)))
    if looked is not None:
        want = ctx.look_refs[idx]
        bad = sorted(k for k in set(looked) | set(want) if looked.get(k) != want.get(k))
        if bad:
            forms = sorted(set(f for _, f in bad))
            out.append(('C07|look|%s-shows-other-values-than-fresh-listing|%s%s'
                        % ('row-by-' + forms[0] if forms[0] != 'column' else 'column', sim, so),
                        'after %r, at index %d, reading %s through the table accessors gives other values than on a '
                        'freshly opened listing with index = %d (%s, %d result times)'
                        % (st.hist + [op], idx, ', '.join('%s[%s]' % k for k in bad[:6]), idx, ctx.key, m.n)))
            return out
    if st.by is not None:
        # a second object is alive: same oracle, signatures of their own (and the second object must still show
        # what its own fresh snapshot shows)
        return out + judge_objects(st, op, idx, sim)
    # invariant: shows what a freshly opened listing positioned directly shows
    obs = listkit.observe(lst, names=True)
    ref = refs[idx]
    if obs != ref:
        part = _part(obs, ref)
        # every cursor action funnels into the same index setter and table reader: one call site 'navigate'
        # (and no argument class) for what the reader shows afterwards; 'history' is its own call site
        site = ('history' if op[1] != 'unknown-column' else 'history-unknown-column') if name == 'history' else \
            ('look-' + op[1] if name == 'look' else 'navigate')
        out.append(('C07|%s|shows-other-%s-than-fresh-listing|%s' % (site, part, sim),
                    'after %r the reader at index %d shows %s unlike a freshly opened listing with index = %d '
                    '(%s, %d result times; got %r, fresh %r)'
                    % (st.hist + [op], idx, part, idx, ctx.key, m.n, _brief(obs), _brief(ref))))
    return out


def _brief(obs):
    return (obs[0], obs[1], obs[2])


def _part(obs, ref):
    if obs[0] != ref[0]:
        return 'index'
    if obs[1] != ref[1]:
        return 'time'
    if obs[2] != ref[2]:
        return 'step'
    if [a[0] for a in obs[3]] != [b[0] for b in ref[3]]:
        return 'table-set'            # the reader offers other tables than the fresh listing does
    bad = [a[0] for a, b in zip(obs[3], ref[3]) if a != b]
    return 'table-' + (bad[0] if bad else 'set').replace('(tables offered)', 'set')


def apply_bystander(st, op, judge):
    """open / move the second object.  -> violations of the action itself (it must work as on its own)."""
    ctx = st.ctx
    by = ctx.prepare_bystanders()
    if op[1] == 'open':
        label = op[2]
        kind = label.split(':')[0]
        if st.by is not None:
            raise core.HarnessError('second object opened twice')
        try:
            st.by = (label, listkit.open_listing(by[label][0]))
        except listkit.OpenFailed as e:
            return [('C07|open|%s|second-object=%s' % (e.kind, kind),
                     'opening a second listing (%s) next to %s: %s; actions %r' % (label, ctx.seed_name, e, st.hist + [op]))]
        return []
    label, b = st.by
    kind = label.split(':')[0]
    j0 = int(b._index)
    b._file.arm()
    try:
        with listkit.quiet():
            ret = b.next()
    except listkit.BudgetExceeded as e:
        b._file.disarm()
        return [('C07|next|nontermination|second-object=%s' % kind,
                 'next() on the second listing (%s) next to %s does not terminate: %s; actions %r'
                 % (label, ctx.seed_name, e, st.hist + [op]))]
    except (core.CaseTimeout, core.HarnessError):
        raise
    except Exception as e:
        b._file.disarm()
        return [('C07|next|raises-%s|second-object=%s' % (type(e).__name__, kind),
                 'next() on the second listing (%s) next to %s raised %r; actions %r' % (label, ctx.seed_name, e, st.hist + [op]))]
    b._file.disarm()
    if judge:
        nb = len(by[label][1])
        want = min(j0 + 1, nb - 1)
        if int(b._index) != want or bool(ret) != (j0 < nb - 1):
            return [('C07|next|wrong-result-set|second-object=%s' % kind,
                     'next() on the second listing (%s) from index %d gives index %r and returns %r; actions %r'
                     % (label, j0, b._index, ret, st.hist + [op]))]
    return []


def judge_objects(st, op, idx, sim):
    """No interference: with a second listing alive, the listing under test still shows what a fresh listing at
    its index showed before any second object existed, and so does the second listing at its own index."""
    ctx = st.ctx
    label, b = st.by
    kind = label.split(':')[0]
    site = 'bystander-' + op[1] if op[0] == 'bystander' else ('history' if op[0] == 'history' else ('look-' + op[1] if op[0] == 'look' else 'navigate'))
    out = []
    obs = listkit.observe(st.lst, names=True)
    ref = ctx.references()[idx]
    if obs != ref:
        part = _part(obs, ref)
        out.append(('C07|%s|shows-other-%s-than-fresh-listing|%s|second-object=%s' % (site, part, sim, kind),
                    'with a second listing (%s) alive, after %r the reader under test at index %d shows %s unlike a '
                    'fresh listing with index = %d snapshotted before any second object existed (%s; got %r, fresh %r)'
                    % (label, st.hist + [op], idx, part, idx, ctx.seed_name, _brief(obs), _brief(ref))))
        return out
    brefs = ctx.prepare_bystanders()[label][1]
    try:
        j = int(b._index)
        bobs = listkit.observe(b, names=True)
    except Exception as e:
        j, bobs = None, repr(e)
    if j is None or not 0 <= j < len(brefs) or bobs != brefs[j]:
        part = _part(bobs, brefs[j]) if (j is not None and 0 <= j < len(brefs) and isinstance(bobs, tuple)) else 'nothing-sensible'
        out.append(('C07|%s|second-object-shows-other-%s-than-its-fresh-snapshot|%s|second-object=%s' % (site, part, sim, kind),
                    'after %r on %s the second listing (%s) at index %r shows %s unlike its own fresh snapshot'
                    % (st.hist + [op], ctx.seed_name, label, j, part)))
    return out


def make_step(confirm):
    def step(st, op, judge=True):
        viol = apply_op(st, op, judge)
        st.hist = st.hist + [op]
        if viol and confirm and not st.genuine:
            again = dict(_run_case(st.ctx, st.hist))
            viol = [(sig if sig in again else sig + '|not-reproduced-on-a-genuine-fresh-open', what)
                    for sig, what in viol]
        return viol
    return step


def canon_of(st):
    lst = st.lst
    # positions 2..5 (index, its type, time, step) are kept readable for the evidence samples; what makes two
    # states the same is the digest of the whole object (every attribute and the aliasing between them) plus
    # the file offset - not only the documented cursor fields (seeded change C07-b: a results cache whose
    # entries alias the live table arrays is invisible in index/time/step/table digests/offset)
    by = None
    if st.by is not None:
        by = (st.by[0], listkit.full_state_digest(st.by[1]), st.by[1]._file.tell())
    return (st.ctx.key, st.ctx.k, int(lst._index), type(lst._index).__name__, repr(lst._time), repr(lst._step),
            listkit.full_state_digest(lst), lst._file.tell(), st.ctx.mode, by)


def validate_state(st, c):
    """First sight of a state: the same history on a genuinely fresh open must reach it too (guards the
    copied-pristine-listing shortcut)."""
    ctx = st.ctx
    g = State(ctx, listkit.open_listing(ctx.path), genuine=True)
    try:
        for op in st.hist:
            apply_op(g, op)
            g.hist = g.hist + [op]
        cg = canon_of(g)
    finally:
        close_state(g)
    # False: the copied pristine listing and a genuine fresh open have drifted apart - state outside the object
    # (class or module level) steers the reader.  That is no verdict by itself (a correct cache is legal): the
    # search is restarted without the shortcut, every state restored through the real constructor.
    return cg == c


def seed_checks(ctx, st):
    out = []
    lst = st.lst
    m = ctx.model
    sim = lst.simulator
    if lst.num_fulltimes != m.n:
        out.append(('C07|open|number-of-result-times|%s' % sim,
                    '%s: reader finds %d full result times, the scan %d' % (ctx.seed_name, lst.num_fulltimes, m.n)))
        return out
    if [float(t) for t in lst.fulltimes] != m.times:
        out.append(('C07|open|times-differ-from-printed|%s' % sim,
                    '%s: fulltimes %r, printed %r' % (ctx.seed_name, list(lst.fulltimes), m.times)))
    if [int(s) for s in lst.fullsteps] != [int(s) for s in m.steps]:
        out.append(('C07|open|steps-differ-from-printed|%s' % sim,
                    '%s: fullsteps %r, printed %r' % (ctx.seed_name, list(lst.fullsteps), m.steps)))
    refs = ctx.references()
    for i, r in enumerate(refs):
        if r[0] != i or float(r[1]) != m.times[i] or r[2] != m.steps[i]:
            out.append(('C07|index|fresh-listing-reports-other-time-or-step|%s' % sim,
                        '%s: fresh listing with index = %d reports (index, time, step) = %r, printed (%r, %r)'
                        % (ctx.seed_name, i, _brief(r), m.times[i], m.steps[i])))
            break
    if listkit.observe(lst, names=True) != refs[0]:
        out.append(('C07|open|fresh-listing-not-at-first-result-set|%s' % sim,
                    '%s: a freshly opened listing does not show what index = 0 shows' % ctx.seed_name))
    return out


def search(rec, ctx, ops, shard, nshards, fresh):
    """Breadth-first search to closure, restoring a state by replaying its history on a fresh listing.

    Splitting one search over several workers (shards) without communication: a fixed *discovery relation*
    D (from the seed: index = j, time = t_j and step = s_j; from every state: the history and look actions) is followed by every
    shard, so every shard finds by itself every state reachable through D ('public' states).  A public state
    is expanded with the full alphabet by exactly one shard, its owner (state hash mod number of shards).  A
    state a shard reaches only through a non-D action ('private' - none exist on the unchanged tree) is
    expanded with the full alphabet by the shard that found it.  Hence every reachable state is fully
    expanded by at least one shard: a public one by its owner; a private one lies behind a non-D action from
    a fully expanded state, and is fully expanded where it was found (induction along the path).
    finalize() re-checks this on the merged result: every state seen by any shard was fully expanded.
    D only decides who does the work, never what is explored."""
    step = make_step(True)
    canon = canon_of
    max_states = (STATE_CAP_PER_RESULT_SET * ctx.model.n + 60) * (12 if ctx.mode == 'by' else 1)

    def is_disc(hist, op):
        if op[0] in ('history', 'look'):
            return True
        if not hist:
            return (op[0] == 'index' and op[1] >= 0) or (op[0] in ('time', 'step') and op[2] == 'exact')
        return False

    def restore(hist):
        st = fresh()
        for op in hist:
            if step(st, op, judge=False):
                raise core.HarnessError('a judged history %r no longer replays on %s' % (hist, ctx.seed_name))
        return st

    seed = fresh()
    k0 = core.h64(canon(seed))
    seen = {k0}
    rec.state(k0)
    frontier = [([], True, k0)]
    depth = 0
    closed = False
    while frontier and depth < MAX_DEPTH:
        nxt = []
        for hist, pub, key in frontier:
            mine = (not pub) or (key % nshards == shard)
            if mine:
                rec.distinct.add(key)
            # discovery actions first, so that a state every shard finds is marked public here too before a
            # non-discovery action of this shard reaches it (otherwise this shard would expand it as well)
            for disc, op in [(True, o) for o in ops if is_disc(hist, o)] + [(False, o) for o in ops if not is_disc(hist, o)]:
                if not (mine or disc) or not enabled(hist, op):
                    continue
                s2 = restore(hist)
                with core.timelimit(120):
                    try:
                        viol = step(s2, op)
                    except core.CaseTimeout:
                        viol = [('C07|%s|timeout|%s' % (op[0], ctx.sim), 'operation did not return within 120 s')]
                if mine:
                    rec.transition(validated=True)
                else:
                    rec.count('transitions_repeated_for_discovery')
                h2 = hist + [op]
                if viol:
                    if mine:
                        for sig, what in viol:
                            rec.violation(sig, what, {'seed': ctx.seed_name, 'ops': h2})
                        rec.outcomes['violating-transition'] += 1
                    continue
                if mine:
                    rec.outcomes['conforming-transition:' + ('second-object-alive' if s2.by is not None else op[0])] += 1
                c2 = canon(s2)
                k = core.h64(c2)
                if k not in seen:
                    if not s2.genuine and (k % nshards == shard or not (pub and disc)):
                        rec.count('states_rederived_on_a_genuine_fresh_open')
                        if not validate_state(s2, c2):
                            ctx.force_genuine = True
                            rec.count('searches_restarted_with_genuine_opens')
                            rec.notes.append('search %s: copied and genuinely opened readers disagree after %r; '
                                             'restarted with genuine opens only' % (ctx.seed_name, h2))
                            return search(rec, ctx, ops, shard, nshards, fresh)
                    seen.add(k)
                    rec.state(k)
                    nxt.append((h2, pub and disc, k))
                    if len(seen) > max_states:
                        # far more states than a cursor over k result sets can have (6-8 per result set on the
                        # unchanged tree): some hidden state grows with the history.  Stop, say so, never hang.
                        rec.count('cap_hit')
                        rec.notes.append('search %s shard %d/%d stopped at %d states (cap %d) at depth %d: not closed'
                                         % (ctx.seed_name, shard, nshards, len(seen), max_states, depth + 1))
                        rec.max_depth = max(rec.max_depth, depth + 1)
                        rec.closed = False
                        rec.outcomes['state-cap-hit'] += 1
                        return seen, False
                    if mine and len(rec.samples) < rec.MAX_SAMPLES:
                        rec.sample({'seed': ctx.seed_name, 'ops': h2, 'reaches': list(canon_of(s2)[2:6])})
        depth += 1
        rec.max_depth = max(rec.max_depth, depth)
        rec.count('shard_states_new_at_depth_%d' % depth, len(nxt))
        frontier = nxt
        if not nxt:
            closed = True
    rec.closed = closed if rec.closed is None else (rec.closed and closed)
    return seen, closed


def run_unit(unit, tier, rec):
    key, k, shard, nshards, mode = unit
    ctx = Ctx(key, k, mode)
    try:
        _run_unit(ctx, unit, tier, rec)
    except listkit.OpenFailed as e:
        # no reader to explore: one violation per (kind, file family), and the search is not closed
        rec.violation('C07|fresh-listing|%s|%s' % (e.kind, ctx.scan.family), str(e), {'seed': ctx.seed_name, 'ops': []})
        rec.state(('no-reader', ctx.seed_name))
        rec.distinct.add(core.h64(('no-reader', ctx.seed_name)))
        rec.transition(validated=False)
        rec.closed = False
        rec.outcomes['no-reader'] += 1
    finally:
        _pristine.drop(ctx.path)
        if os.path.dirname(ctx.path) != os.path.dirname(ctx.src):
            try:
                os.remove(ctx.path)
            except OSError:
                pass


def _run_unit(ctx, unit, tier, rec):
    key, k, shard, nshards, mode = unit
    live = []

    def fresh():
        while live:
            close_state(live.pop())
        # searches with a second object go through the real constructor every time (what a constructor does to
        # other live objects is the point there); the others use the validated copy of a pristine fresh open
        if ctx.mode == 'by' or ctx.force_genuine:
            st = State(ctx, listkit.open_listing(ctx.path), genuine=True)
        else:
            st = State(ctx, _pristine.fresh(ctx.path))
        live.append(st)
        return st

    seed = fresh()
    ops = ctx.alphabet(seed.lst._tablenames)
    ctx.sim = seed.lst.simulator
    fatal = seed_checks(ctx, seed) if (shard == 0 and mode == 'main') else []
    for sig, what in fatal:
        rec.violation(sig, what, {'seed': ctx.seed_name, 'ops': []})
    if seed.lst.num_fulltimes != ctx.model.n:
        # the reader and the scan disagree about the file: nothing further can be judged (reported by shard 0)
        rec.state(canon_of(seed))
        rec.distinct.add(core.h64(canon_of(seed)))
        rec.transition(validated=False)
        rec.closed = False if rec.closed is None else False
        return
    seen, closed = search(rec, ctx, ops, shard, nshards, fresh)
    while live:
        close_state(live.pop())
    if mode.startswith('del:'):
        rec.count('searches_on_listings_with_a_table_not_printed_in_a_later_result_set', 1)
        rec.count('states_in_those_searches', len(seen))
    elif mode == 'by':
        rec.count('searches_with_a_second_object', 1)
        rec.count('states_in_searches_with_a_second_object', len(seen))
        rec.count('second_object_kinds', len(ctx.prepare_bystanders()))
    elif shard == 0:
        rec.count('searches', 1)
        rec.count('actions_in_alphabets', len(ops))
        rec.count('reference_observations', ctx.model.n)
        rec.count('states_in_searches_of_%s' % ('truncated_copies' if ctx.path != ctx.src else 'whole_files'), len(seen))
    rec.count('shards', 1)
    rec.count('shards_closed', 1 if closed else 0)
    if not closed and not rec.counters.get('cap_hit'):
        rec.count('cap_hit')
        rec.notes.append('search %s shard %d/%d not closed at depth %d' % (ctx.seed_name, shard, nshards, MAX_DEPTH))


def finalize(rec, tier):
    """Closure needs the merged view: every state any shard saw must have been expanded with the full alphabet."""
    unexpanded = rec.states - rec.distinct
    if unexpanded:
        rec.closed = False
        rec.counters['cap_hit'] += 1
        rec.notes.append('%d states were seen but never expanded with the full alphabet' % len(unexpanded))
    return {'states_fully_expanded': len(rec.distinct & rec.states), 'states_not_expanded': len(unexpanded)}


def _run_case(ctx, ops):
    """The ops on a genuinely fresh open; violations of any step (the last one is the recorded one)."""
    try:
        return _run_case_inner(ctx, ops)
    except listkit.OpenFailed as e:
        return [('C07|fresh-listing|%s|%s' % (e.kind, ctx.scan.family), str(e))]


def _run_case_inner(ctx, ops):
    st = State(ctx, listkit.open_listing(ctx.path), genuine=True)
    out = []
    try:
        out += seed_checks(ctx, st) if not ops else []
        for op in ops:
            v = apply_op(st, op)
            st.hist = st.hist + [op]
            if v:
                out += v
                break
    finally:
        close_state(st)
    return out


def replay(case):
    key, _, k = case['seed'].rpartition('@')
    mode = 'main'
    if k.endswith('+by'):
        k, mode = k[:-3], 'by'
    elif '+del:' in k:
        k, _, m = k.partition('+')
        mode = m
    ctx = Ctx(key, int(k), mode)
    return _run_case(ctx, [list(op) for op in case['ops']])
