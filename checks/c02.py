"""C02 - fixed-column records never spill.

Space (crossed completely): every field of every record kind of the four live format tables
(enumerated by introspection of the library's own tables) x the value alphabet of the field's kind,
all other fields holding distinct full-width sentinels; plus 'absent' at the field and, for a reduced
value set, 'absent' at every other single position.
Oracle: the property statement - either the write raises, or the record has its reference width,
every other field parses back to its sentinel and the field parses back to the value (to the printed
digits for reals; the printed text must be within one unit of its last printed digit of the value).
"""
import math
import os

from mc import core
from ref import fortnum

ID = 'C02'
LEVEL = 'exploration'
EXHAUSTIVE = True
RULE = ('all (format table, record kind, field) x value alphabet (reals: sign x decimal exponent x 6 mantissa '
        'patterns + signed zero, f-fields also every magnitude to 10^(w+1); integers: 0 and min/max of every digit '
        'count 1..w+1 both signs; names: all strings over {a,Z,7,blank} to length min(w,5)+1 and lengths 0,1,w-1,w,w+1) '
        'with full-width sentinels elsewhere, and None at the field / at each other position; plus the dictionary route '
        '(write_value_line -> read_value_line into a fresh dictionary) for every record kind with unique field names, '
        'each field zero or absent; plus the crossed units: every PAIR of fields of a record kind (thorough: also every three '
        'adjacent fields) each at absent / zero / widest-that-fits / narrowest-that-does-not, both signs; and the history '
        'units: one long-lived parser per table used for every ordered pair of record kinds in turn; a case is non-trivial '
        'when the value under test is not None; distinct = distinct (table, record, field, value, None-position)')
ASSUMPTIONS = ['records are written and parsed through fixed_format_file.write_values_to_string / parse_string of the '
               'parser classes the library itself instantiates (t2data_parser, t2_extra_precision_data_parser, '
               't2incon_parser, fixed_format_file with the mulgrid table)',
               'reference column positions are the cumulative absolute widths of the format strings',
               'reference value of a printed real is ref/fortnum.parse_real (exact decimal -> nearest double)']
BOUNDS = {'quick': {'exponents': 'boundary set of 25 decimal exponents in -120..120', 'none_pairs': 'one value',
                    'crossed': 'every pair of fields of every record kind x reduced boundary alphabet (4-12 values per field)',
                    'sequences': 'one parser object: every ordered pair of record kinds of a table',
                    'short_lists': 'records given as their first n values, every n; first record of a fresh parser of length n1 (all n1 for kinds of <= 6 fields, else 1, 2, F/2, F-1, F) then every length ascending / descending',
                    'primed_readers': 'Fortran-read parsers of the four tables after direct fortran_float / fortran_int calls with three other blank values, and back'},
          'thorough': {'exponents': 'all 241 decimal exponents -120..120', 'none_pairs': 'three values',
                       'crossed': 'every pair of fields x wider boundary alphabet; every three adjacent fields x reduced alphabet',
                       'sequences': 'every ordered pair of record kinds, first record plain and over-wide; every ordered triple whose last two kinds have equally many fields',
                       'short_lists': 'as quick with every first length n1',
                       'primed_readers': 'as quick'}}

MANT = [1.0, 1.5, 5.0, 9.5, 1.2345678901234567, 9.999999999999999]
QUICK_EXP = [-120, -101, -100, -99, -98, -38, -10, -9, -5, -4, -3, -2, -1, 0, 1, 2, 3, 4, 5, 9, 10, 38, 99, 100, 120]


def tables():
    import t2data, t2incons, mulgrids, fixed_format_file as fff
    d = core.scratch()
    null = os.path.join(d, 'c02.tmp')
    out = {}
    out['t2data'] = t2data.t2data_parser(null, 'w')
    out['t2data_xp'] = t2data.t2_extra_precision_data_parser(null, 'w')
    out['t2incon'] = t2incons.t2incon_parser(null, 'w')
    out['mulgrid_w'] = fff.fixed_format_file(null, 'w', mulgrids.mulgrid_format_specification)
    for p in out.values():
        p.file.close()
    return out


def split_fmt(f):
    typ = f[-1]
    body = f[:-1]
    wtxt, _, ptxt = body.partition('.')
    return typ, abs(int(wtxt)), (int(ptxt) if ptxt else None), int(wtxt) < 0


def ref_columns(fmts):
    cols, pos = [], 0
    for f in fmts:
        typ, w, p, left = split_fmt(f)
        cols.append((pos, pos + w))
        pos += w
    return cols, pos


def sentinel(typ, w, pos):
    if typ == 'x':
        return None
    if typ == 's':
        return chr(ord('A') + pos % 26) * w
    if typ == 'd':
        if w == 1:
            return pos % 9 + 1
        return int((('%02d' % (pos + 11)) * w)[:w])
    if typ == 'f':
        return 0.5 + (pos + 1) / 100.
    return float('1.%02de+05' % (pos + 1))


def real_values(typ, w, tier):
    exps = range(-120, 121) if tier == 'thorough' else QUICK_EXP
    vals = [0.0, -0.0]
    for e in exps:
        for m in MANT:
            v = float('%re%d' % (m, e))
            vals.append(v)
            vals.append(-v)
    return vals


def int_values(w):
    vals = [0]
    for nd in range(1, w + 2):
        lo, hi = 10 ** (nd - 1), 10 ** nd - 1
        vals += [lo, hi, -lo, -hi]
    return sorted(set(vals))


def name_values(w):
    alpha = 'aZ7 '
    out = ['']
    if w <= 6:
        maxlen = min(w, 5) + 1
        level = ['']
        for n in range(1, maxlen + 1):
            level = [s + c for s in level for c in alpha]
            out += level
    else:
        for n in (1, w - 1, w, w + 1):
            out.append(('aZ7 ' * (n // 4 + 1))[:n])
            out.append('a' * n)
    return out


def units(tier):
    us = []
    for tname, parser in tables().items():
        for rec_kind in parser.specification:
            us.append((tname, rec_kind))
            us.append(('pairs', tname, rec_kind))
    for tname in tables():
        us.append(('sequences', tname))
        us.append(('short-lists', tname))
    us.append(('primed-readers',))
    us.append(('dict-path',))
    us.append(('two-parsers',))
    us.append(('containers-and-files',))
    return us


def containers_and_files_unit(rec, tier):
    """(a) The container the values arrive in does not matter: a tuple or a numpy array of the same values
    gives the same record as a list (all-real records; the library itself passes arrays for initial
    conditions and diffusion rows).  (b) The file route: a record refused by write_values() (ValueError) must
    leave nothing in the file - the records written before and after it through the same parser must each
    be on a line of their own and parse back."""
    import io
    import numpy as np
    n = 0
    exps = QUICK_EXP if tier == 'quick' else range(-120, 121, 3)
    for tname, parser in tables().items():
        for rec_kind, (names, fmts) in parser.specification.items():
            cols, width = ref_columns(fmts)
            kinds = [split_fmt(f)[0] for f in fmts]
            good = [sentinel(*split_fmt(f)[:2], pos=j) for j, f in enumerate(fmts)]
            # (a) containers
            if all(k in 'efg' for k in kinds):
                for i, f in enumerate(fmts):
                    for e in exps:
                        for m in (1.5, -1.5, 9.999999999999999, -9.999999999999999):
                            vals = list(good)
                            vals[i] = float('%re%d' % (m, e))
                            ref = None
                            for cname, cont in (('list', list), ('tuple', tuple), ('ndarray', lambda v: np.array(v, dtype=float))):
                                try:
                                    out = ('ok', parser.write_values_to_string(cont(vals), rec_kind))
                                except core.CaseTimeout:
                                    raise
                                except Exception as ex:
                                    out = ('raises', type(ex).__name__)
                                n += 1
                                if cname == 'list':
                                    ref = out
                                elif out != ref:
                                    rec.violation('C02|%s|%s|%d:%s|%s|container-changes-record|%s|%s' % (tname, rec_kind, i, names[i], f, cname, vclass('e', vals[i])),
                                                  'values %r written from a %s give %r, from a list %r' % (vals[i], cname, out, ref),
                                                  {'containers': tname, 'record': rec_kind, 'field': i, 'value': repr(vals[i])})
            # (b) refused record in a file
            for i, f in enumerate(fmts):
                typ, w, prec, left = split_fmt(f)
                if typ == 'x':
                    continue
                bad = list(good)
                bad[i] = {'d': 10 ** w, 's': 'Q' * (w + 1)}.get(typ, 1e300 if typ == 'f' else None)
                if bad[i] is None:
                    continue       # e-format reals always fit (precision is reduced)
                parser.file = io.StringIO()
                refused = False
                try:
                    parser.write_values(good, rec_kind)
                    try:
                        parser.write_values(bad, rec_kind)
                    except core.CaseTimeout:
                        raise
                    except Exception:
                        refused = True
                    parser.write_values(good, rec_kind)
                except core.CaseTimeout:
                    raise
                except Exception as ex:
                    rec.violation('C02|%s|%s|%d:%s|%s|file-route-raises' % (tname, rec_kind, i, names[i], f), repr(ex),
                                  {'file_route': tname, 'record': rec_kind, 'field': i})
                    continue
                n += 1
                if not refused:
                    continue       # judged by the record-level units
                lines = parser.file.getvalue().split('\n')
                line = parser.write_values_to_string(good, rec_kind)
                if [l for l in lines if l != ''] != [line, line]:
                    rec.violation('C02|%s|%s|%d:%s|%s|refused-record-leaves-partial-line' % (tname, rec_kind, i, names[i], f),
                                  'after a refused record the file holds %r instead of the two complete records' % lines[:3],
                                  {'file_route': tname, 'record': rec_kind, 'field': i})
    # (c) the file route with the tail of the record absent: fields 0..j present, the rest absent, for every j;
    # names in two spellings (full width, and ending in a blank - legal names, e.g. MULgraph column names and the
    # left-justified MINC 'where' field); written with write_values() and read back with read_values()
    for tname, parser in tables().items():
        for rec_kind, (names, fmts) in parser.specification.items():
            for spelling in ('full', 'trailing-blank'):
                for j in range(len(fmts)):
                    if split_fmt(fmts[j])[0] == 'x':
                        continue
                    vals = []
                    for k, f in enumerate(fmts):
                        typ, w, prec, left = split_fmt(f)
                        v = sentinel(typ, w, k) if k <= j else None
                        if typ == 's' and v is not None and spelling == 'trailing-blank' and w >= 2:
                            v = v[:w - 1] + ' '
                        vals.append(v)
                    parser.file = io.StringIO()
                    n += 1
                    try:
                        parser.write_values(vals, rec_kind)
                        parser.file.seek(0)
                        back = parser.read_values(rec_kind)
                    except core.CaseTimeout:
                        raise
                    except Exception as ex:
                        rec.violation('C02|%s|%s|%d:%s|%s|file-route-raises|tail-absent' % (tname, rec_kind, j, names[j] if j < len(names) else '?', fmts[j]),
                                      repr(ex), {'file_route': tname, 'record': rec_kind, 'field': j})
                        continue
                    for k, f in enumerate(fmts):
                        tk, wk, pk, lk = split_fmt(f)
                        if tk == 'x':
                            continue
                        got = back[k] if k < len(back) else None
                        if vals[k] is None:
                            ok = got is None or (isinstance(got, str) and got.strip() == '')
                        elif tk == 's':
                            ok = isinstance(got, str) and got.strip(' ') == vals[k].strip(' ')
                        else:
                            ok = got == expected_sentinel(tk, f, vals[k])
                        if not ok:
                            rec.violation('C02|%s|%s|%d:%s|%s|file-route-value-lost|tail-absent,last-present=%s,name-%s'
                                          % (tname, rec_kind, k, names[k] if k < len(names) else '?', f,
                                             'this' if k == j else 'other', spelling),
                                          'record %r written to a file with fields after %d absent: field %d reads back %r'
                                          % (vals, j, k, got), {'file_route': tname, 'record': rec_kind, 'field': j})
                            break
    rec.bulk(n, [('containers-and-files', n)], outcome='containers-and-files')
    rec.count('container_and_file_cases', n)
    rec.sample({'containers_and_files': 'all-real records written from list / tuple / ndarray; a refused record between two good ones in one file; records with the tail absent through write_values / read_values', 'cases': n})


def two_parsers_unit(rec):
    """No interference between parser objects: every parser reads with ITS OWN conversion functions and
    column positions, whatever other parser (same table with another read function, another table with the
    same record names) was created or used before it in the process.  Both creation orders."""
    import copy
    import fixed_format_file as fff
    import t2data, t2incons, mulgrids
    null = os.path.join(core.scratch(), 'c02b.tmp')
    specs = {'t2data': t2data.t2data_format_specification,
             't2data_xp': t2data.t2data_extra_precision_format_specification,
             't2incon': t2incons.t2incon_format_specification,
             'mulgrid': mulgrids.mulgrid_format_specification}
    fns = {'default': fff.default_read_function, 'fortran': fff.fortran_read_function}
    n = 0

    def mk(spec, fn):
        q = fff.fixed_format_file(null, 'w', spec, fns[fn])
        q.file.close()
        return q

    def probe(q, fn, tname, kind, order):
        # a real field holding a Fortran-only form, an integer field with an embedded blank
        out = []
        names, fmts = q.specification[kind]
        cols, width = ref_columns(fmts)
        for i, f in enumerate(fmts):
            typ, w, prec, left = split_fmt(f)
            if typ in 'efg' and w >= 9:
                text = '1.5D+02'.rjust(w)
                want = 150.0 if fn == 'fortran' else None
            elif typ == 'd' and w >= 3:
                text = ('1 2').rjust(w)
                want = 12 if fn == 'fortran' else None
            else:
                continue
            line = ''.join(text if j == i else ' ' * split_fmt(g)[1] for j, g in enumerate(fmts))
            got = q.parse_string(line, kind)[i]
            if got != want:
                out.append(('C02|%s|%s|%d:%s|%s|own-read-function|%s-parser-created-%s' % (tname, kind, i, names[i], f, fn, order),
                            '%s parser reads %r as %r, its own read function gives %r' % (fn, text, got, want)))
        return out

    for tname, spec in specs.items():
        kinds = list(spec)
        for first, second in (('default', 'fortran'), ('fortran', 'default')):
            sp = copy.deepcopy(spec)          # a new table object: nothing cached for it yet
            q1 = mk(sp, first)
            q2 = mk(sp, second)
            for kind in kinds:
                for q, fn, order in ((q2, second, 'second'), (q1, first, 'first')):
                    for sig, what in probe(q, fn, tname, kind, order):
                        rec.violation(sig, what, {'two_parsers': tname, 'record': kind, 'order': [first, second]})
                    n += 1
                    rec.case((tname, kind, first, second, order, 'two-parsers'), outcome='two-parsers')
    # two tables sharing record names with different widths (standard / extra precision), both orders
    for a, b in (('t2data', 't2data_xp'), ('t2data_xp', 't2data')):
        qa = mk(copy.deepcopy(specs[a]), 'default')
        qb = mk(copy.deepcopy(specs[b]), 'default')
        for q, tname in ((qb, b), (qa, a)):
            for kind in q.specification:
                names, fmts = q.specification[kind]
                cols, width = ref_columns(fmts)
                vals = [sentinel(*split_fmt(f)[:2], pos=j) for j, f in enumerate(fmts)]
                line = q.write_values_to_string(vals, kind)
                back = q.parse_string(line, kind)
                n += 1
                rec.case((a, b, tname, kind, 'two-tables'), outcome='two-tables')
                for j, f in enumerate(fmts):
                    tj = f[-1]
                    if tj == 'x':
                        continue
                    if back[j] != expected_sentinel(tj, f, vals[j]):
                        rec.violation('C02|%s|%s|%d|%s|own-columns|after-%s' % (tname, kind, j, f, a if tname == b else b),
                                      'field %d of %s/%s reads back %r instead of %r when a parser of the other table exists'
                                      % (j, tname, kind, back[j], vals[j]), {'two_tables': [a, b], 'record': kind})
                        break
    rec.count('two_parser_cases', n)
    rec.sample({'two_parsers': 'parsers of one table with default / Fortran read functions in both creation orders; standard and extra-precision tables in both orders', 'cases': n})


def dict_records(parser):
    """Record kinds usable through write_value_line / read_value_line: unique, non-empty names."""
    out = []
    for rec_kind, (names, fmts) in parser.specification.items():
        named = [n for n, f in zip(names, fmts) if f[-1] != 'x']
        if named and len(set(named)) == len(named) and all(named):
            out.append(rec_kind)
    return out


def eval_dict_case(parser, tname, rec_kind, i, kind):
    """One record written from a dictionary and read back into a fresh dictionary, with field i
    zero ('zero') or absent ('absent'); all other fields hold their sentinels."""
    import io
    names, fmts = parser.specification[rec_kind]
    var = {}
    for j, (n, f) in enumerate(zip(names, fmts)):
        typ, w, prec, left = split_fmt(f)
        if typ != 'x':
            var[n] = sentinel(typ, w, j)
    typ, w, prec, left = split_fmt(fmts[i])
    if kind == 'zero':
        var[names[i]] = 0 if typ == 'd' else 0.0
    else:
        del var[names[i]]
    base = 'C02|%s|%s|%d:%s|%s|dict-path' % (tname, rec_kind, i, names[i], fmts[i])
    parser.file = io.StringIO()
    try:
        parser.write_value_line(var, rec_kind)
        parser.file.seek(0)
        back = {}
        parser.read_value_line(back, rec_kind)
    except core.CaseTimeout:
        raise
    except Exception as e:
        return [(base + '|raises', 'write_value_line/read_value_line raised %r for %r' % (e, var))]
    out = []
    for j, (n, f) in enumerate(zip(names, fmts)):
        tj = f[-1]
        if tj == 'x':
            continue
        if n in var:
            want = expected_sentinel(tj, f, var[n]) if tj in 'efg' else var[n]
            if n not in back:
                out.append((base + '|%s-value-dropped' % ('zero' if (j == i and kind == 'zero') else 'written'),
                            'field %r written as %r is missing from the dictionary read back' % (n, var[n])))
            elif back[n] != want:
                out.append((base + '|value-differs', 'field %r written as %r reads back %r' % (n, var[n], back[n])))
        else:
            got = back.get(n)
            if not (got is None or (isinstance(got, str) and got.strip() == '')):
                out.append((base + '|absent-not-absent', 'absent field %r reads back %r' % (n, got)))
    return out


def eval_full_dict_case(parser, tname, rec_kind):
    """A dictionary holding a value for EVERY name of the record kind is written and read back: every name
    whose value was written must be in the dictionary read back, with its value."""
    import io
    names, fmts = parser.specification[rec_kind]
    var = {}
    for j, n in enumerate(names):
        if j < len(fmts):
            typ, w, prec, left = split_fmt(fmts[j])
            if typ != 'x':
                var[n] = sentinel(typ, w, j)
        elif n:
            var[n] = 3.5
    base = 'C02|%s|%s|all-names|dict-path' % (tname, rec_kind)
    parser.file = io.StringIO()
    try:
        parser.write_value_line(var, rec_kind)
        parser.file.seek(0)
        back = {}
        parser.read_value_line(back, rec_kind)
    except core.CaseTimeout:
        raise
    except Exception as e:
        return [(base + '|raises', 'write_value_line/read_value_line raised %r for %r' % (e, var))]
    out = []
    for j, n in enumerate(names):
        if n not in var:
            continue
        if n not in back:
            out.append((base + '|written-value-dropped', 'name %r (position %d of %d names, %d formats) written as %r is missing '
                        'from the dictionary read back' % (n, j, len(names), len(fmts), var[n])))
            break
        if j < len(fmts):
            tj = fmts[j][-1]
            want = expected_sentinel(tj, fmts[j], var[n]) if tj in 'efg' else var[n]
            if back[n] != want:
                out.append((base + '|value-differs', 'name %r written as %r reads back %r' % (n, var[n], back[n])))
                break
    return out


def expected_sentinel(typ, f, val):
    if typ in 'efg':
        return float(('%' + f) % val)
    return val


def eval_case(parser, tname, rec_kind, names, fmts, cols, width, i, val, none_at, rec, check_only=False):
    """One record.  Returns list of (sig, what)."""
    typ, w, prec, left = split_fmt(fmts[i])
    vals = [sentinel(*split_fmt(f)[:2], pos=j) for j, f in enumerate(fmts)]
    vals[i] = val
    if none_at is not None:
        vals[none_at] = None
    out = []
    fld = '%d:%s' % (i, names[i] if i < len(names) else '?')
    base = 'C02|%s|%s|%s|%s' % (tname, rec_kind, fld, fmts[i])
    try:
        s = parser.write_values_to_string(vals, rec_kind)
    except core.CaseTimeout:
        raise
    except Exception as e:
        # fails loudly: acceptable when the value cannot be represented in its columns; a value that
        # fits must be written
        if fits(typ, w, prec, val):
            out.append((base + '|raises-on-fitting-value|' + vclass(typ, val),
                        'write raised %s for a value that fits its field: %r' % (type(e).__name__, val)))
        return out, 'raised'
    if len(s) != width:
        out.append((base + '|record-width|' + vclass(typ, val),
                    'record is %d columns wide, format says %d: value %r -> %r' % (len(s), width, val, s)))
    try:
        back = parser.parse_string(s, rec_kind)
    except Exception as e:
        out.append((base + '|parse-raises', 'parse_string raised %r on %r' % (e, s)))
        return out, 'parse-raised'
    for j, f in enumerate(fmts):
        tj, wj, pj, lj = split_fmt(f)
        if j == i:
            continue
        if tj == 'x' or vals[j] is None:
            ok = back[j] is None or (isinstance(back[j], str) and back[j].strip() == '')
        else:
            ok = back[j] == expected_sentinel(tj, f, vals[j])
        if not ok:
            out.append((base + '|neighbour-corrupted|' + vclass(typ, val),
                        'field %d (%s) reads back %r instead of %r after writing %r into field %d: %r'
                        % (j, f, back[j], vals[j], val, i, s)))
            break
    # the field itself
    text = s[cols[i][0]:cols[i][1]]
    got = back[i]
    if typ == 'x':
        pass
    elif val is None:
        if not (got is None or (isinstance(got, str) and got.strip() == '')):
            out.append((base + '|absent-not-absent', 'absent value reads back %r from %r' % (got, s)))
    elif typ == 'd':
        if got != val and fits(typ, w, prec, val):
            out.append((base + '|int-wrong', 'integer %r reads back %r from %r' % (val, got, s)))
        elif got != val and not out:
            out.append((base + '|int-silently-wrong|' + vclass(typ, val),
                        'integer %r does not fit %d columns, was written without error and reads back %r'
                        % (val, w, got)))
    elif typ == 's':
        if len(val) <= w:
            if not (isinstance(got, str) and got.strip(' ') == val.strip(' ') and len(got) == w):
                out.append((base + '|name-wrong', 'name %r reads back %r from %r' % (val, got, s)))
    else:
        pr = fortnum.parse_real(text)
        if pr is None or pr[0] == 'blank':
            out.append((base + '|real-unreadable|' + vclass(typ, val),
                        'real %r printed as %r which is not a number' % (val, text)))
        else:
            rv, unit = pr
            if got != rv and not (isinstance(got, float) and got != got and rv != rv):
                out.append((base + '|real-parse-differs|' + vclass(typ, val),
                            'printed %r means %r, library read %r' % (text, rv, got)))
            elif abs(rv - val) > unit * (1 + 1e-9):
                out.append((base + '|real-wrong-number|' + vclass(typ, val),
                            'real %r printed as %r = %r, more than one unit of the last printed digit away'
                            % (val, text, rv)))
    return out, 'ok'


def fits(typ, w, prec, val):
    """Conservative: True only when the value certainly has a representation in w columns
    at the format's own precision (so that raising would be a defect, not loud failure)."""
    if val is None:
        return True
    if typ == 'd':
        return len('%d' % val) <= w
    if typ == 's':
        return len(val) <= w
    if typ == 'e':
        if val == 0:
            return True
        e = math.floor(math.log10(abs(val)))
        # sign + d.ddd + e+xx, rounding may carry: be conservative
        need = (1 if val < 0 else 0) + 1 + (1 + prec if prec else 0) + 4
        return abs(e) < 98 and need <= w
    if typ == 'f':
        if val == 0:
            return True
        e = math.floor(math.log10(abs(val))) if abs(val) >= 1 else 0
        need = (1 if val < 0 else 0) + (e + 2) + 1 + (prec or 0)
        return need <= w
    return False


def vclass(typ, val):
    if val is None:
        return 'none'
    if typ == 'd':
        return ('neg' if val < 0 else 'pos') + '-%ddigits' % len(str(abs(val)))
    if typ == 's':
        return 'len%d' % len(val)
    if not isinstance(val, (int, float)):
        return type(val).__name__
    if val == 0:
        return 'zero'
    e = math.floor(math.log10(abs(val)))
    return ('neg' if val < 0 else 'pos') + ('-exp3' if abs(e) >= 100 else '-exp2')


def pair_values(typ, w, prec, tier):
    """Reduced boundary alphabet of one field for the crossed (two / three fields at once) units: absent, zero,
    the widest values that fit, the narrowest that do not, both signs."""
    if typ == 'd':
        vals = [None, 0, 10 ** w - 1, 10 ** w]
        if w >= 2:
            vals += [-(10 ** (w - 1) - 1), -(10 ** (w - 1))]
        if tier == 'thorough':
            vals += [1, -1] if w >= 2 else [1]
    elif typ == 's':
        vals = [None, '', 'b' * w, 'b' * (w + 1)]
        if w >= 2:
            vals.append('b' * (w - 1) + ' ')
        if tier == 'thorough' and w >= 2:
            vals += [' ' + 'b' * (w - 1), 'b']
    elif typ == 'f':
        p = prec or 0
        vals = [None, 0.0, 1.0, -1.0]
        for k in range(max(0, w - p - 4), w + 1):
            vals += [9.99999 * 10.0 ** k, -9.99999 * 10.0 ** k]
    else:
        vals = [None, 0.0, 9.999999999999999e99, -9.999999999999999e99, 1e100, -1e-100, -1.2345678901234567e5, 1.5e-5]
        if tier == 'thorough':
            vals += [-0.0, 9.5e-100, -9.999999999999999e-1, 1.2345678901234567e-10, -1e100]
    return vals


def check_field(base, typ, w, prec, text, got, val, s):
    """The clauses of eval_case for the field under test, for the crossed units."""
    out = []
    if typ == 'x':
        return out
    if val is None:
        if not (got is None or (isinstance(got, str) and got.strip() == '')):
            out.append((base + '|absent-not-absent', 'absent value reads back %r from %r' % (got, s)))
    elif typ == 'd':
        if got != val:
            out.append((base + ('|int-wrong' if fits(typ, w, prec, val) else '|int-silently-wrong|' + vclass(typ, val)),
                        'integer %r reads back %r from %r' % (val, got, s)))
    elif typ == 's':
        if len(val) <= w:
            if not (isinstance(got, str) and got.strip(' ') == val.strip(' ') and len(got) == w):
                out.append((base + '|name-wrong', 'name %r reads back %r from %r' % (val, got, s)))
    else:
        pr = fortnum.parse_real(text)
        if pr is None or pr[0] == 'blank':
            out.append((base + '|real-unreadable|' + vclass(typ, val), 'real %r printed as %r which is not a number' % (val, text)))
        else:
            rv, unit = pr
            if got != rv and not (isinstance(got, float) and got != got and rv != rv):
                out.append((base + '|real-parse-differs|' + vclass(typ, val), 'printed %r means %r, library read %r' % (text, rv, got)))
            elif abs(rv - val) > unit * (1 + 1e-9):
                out.append((base + '|real-wrong-number|' + vclass(typ, val),
                            'real %r printed as %r = %r, more than one unit of the last printed digit away' % (val, text, rv)))
    return out


def eval_multi_case(parser, tname, rec_kind, names, fmts, cols, width, assign):
    """One record with SEVERAL fields under test at once (assign: {position: value}), sentinels elsewhere.
    Same oracle as eval_case: the write raises (allowed unless every value fits), or the record has its
    width, every untouched field reads back its sentinel and every field under test reads back its value."""
    vals = [sentinel(*split_fmt(f)[:2], pos=j) for j, f in enumerate(fmts)]
    for k, v in assign.items():
        vals[k] = v
    pos = sorted(assign)
    tag = '+'.join('%d:%s' % (k, names[k] if k < len(names) else '?') for k in pos)
    base = 'C02|%s|%s|%s|%s|crossed' % (tname, rec_kind, tag, '+'.join(fmts[k] for k in pos))
    out = []
    try:
        s = parser.write_values_to_string(vals, rec_kind)
    except core.CaseTimeout:
        raise
    except Exception as e:
        if all(fits(*split_fmt(fmts[k])[:3], val=assign[k]) for k in pos):
            out.append((base + '|raises-on-fitting-values', 'write raised %s for values that all fit their fields: %r'
                        % (type(e).__name__, [assign[k] for k in pos])))
        return out, 'raised'
    if len(s) != width:
        out.append((base + '|record-width', 'record is %d columns wide, format says %d: %r -> %r' % (len(s), width, assign, s)))
    try:
        back = parser.parse_string(s, rec_kind)
    except Exception as e:
        out.append((base + '|parse-raises', 'parse_string raised %r on %r' % (e, s)))
        return out, 'parse-raised'
    for j, f in enumerate(fmts):
        if j in assign:
            continue
        tj, wj, pj, lj = split_fmt(f)
        if tj == 'x' or vals[j] is None:
            ok = back[j] is None or (isinstance(back[j], str) and back[j].strip() == '')
        else:
            ok = back[j] == expected_sentinel(tj, f, vals[j])
        if not ok:
            out.append((base + '|neighbour-corrupted', 'field %d (%s) reads back %r instead of %r after writing %r: %r'
                        % (j, f, back[j], vals[j], assign, s)))
            break
    for k in pos:
        typ, w, prec, left = split_fmt(fmts[k])
        fb = 'C02|%s|%s|%d:%s|%s|crossed-with-%s' % (tname, rec_kind, k, names[k] if k < len(names) else '?', fmts[k],
                                                    '+'.join(str(q) for q in pos if q != k))
        out += check_field(fb, typ, w, prec, s[cols[k][0]:cols[k][1]], back[k], assign[k], s)
    return out, 'ok'


def pairs_unit(unit, tier, rec):
    """Two fields of one record at their limits at the same time (every pair of positions x the reduced
    boundary alphabet of each), and, in the thorough tier, every three adjacent fields: a guard that looks
    at one field at a time, or a width that is right only while the neighbour is narrow, shows here."""
    _, tname, rec_kind = unit
    parser = tables()[tname]
    names, fmts = parser.specification[rec_kind]
    cols, width = ref_columns(fmts)
    live = [i for i, f in enumerate(fmts) if split_fmt(f)[0] != 'x']
    alph = {i: pair_values(*split_fmt(fmts[i])[:3], tier=tier) for i in live}
    n = 0
    for a in range(len(live)):
        for b in range(a + 1, len(live)):
            i, j = live[a], live[b]
            for vi in alph[i]:
                for vj in alph[j]:
                    viol, oc = eval_multi_case(parser, tname, rec_kind, names, fmts, cols, width, {i: vi, j: vj})
                    rec.case((tname, rec_kind, 'pair', i, repr(vi), j, repr(vj)), nontrivial=vi is not None and vj is not None, outcome='pair-' + oc)
                    n += 1
                    for sig, what in viol:
                        rec.violation(sig, what, {'table': tname, 'record': rec_kind, 'assign': {str(i): repr(vi), str(j): repr(vj)}})
    t = 0
    if tier == 'thorough':
        small = {i: pair_values(*split_fmt(fmts[i])[:3], tier='quick') for i in live}
        for a in range(len(live) - 2):
            i, j, k = live[a], live[a + 1], live[a + 2]
            for vi in small[i]:
                for vj in small[j]:
                    for vk in small[k]:
                        viol, oc = eval_multi_case(parser, tname, rec_kind, names, fmts, cols, width, {i: vi, j: vj, k: vk})
                        rec.case((tname, rec_kind, 'triple', i, repr(vi), repr(vj), repr(vk)),
                                 nontrivial=None not in (vi, vj, vk), outcome='triple-' + oc)
                        t += 1
                        for sig, what in viol:
                            rec.violation(sig, what, {'table': tname, 'record': rec_kind,
                                                      'assign': {str(i): repr(vi), str(j): repr(vj), str(k): repr(vk)}})
    rec.count('pair_cases', n)
    rec.count('triple_cases', t)


def sequences_unit(unit, tier, rec):
    """History of ONE parser object: for every ordered pair (a, b) of record kinds of a table, a long-lived parser
    first writes and parses a record of kind a (all sentinels; thorough: also with its first live field over-wide,
    refused or fitted), then a record of kind b, which must obey the reference exactly as from a fresh parser -
    whatever a memo of widths, columns or converters remembered from a.  Thorough adds every ordered triple
    whose middle kind has the same number of fields as the last (the coarsest plausible memo key)."""
    _, tname = unit
    parser = tables()[tname]
    kinds = list(parser.specification)
    info = {}
    for k in kinds:
        names, fmts = parser.specification[k]
        cols, width = ref_columns(fmts)
        info[k] = (names, fmts, cols, width)
    n = 0

    def prime(k, wide):
        names, fmts, cols, width = info[k]
        vals = [sentinel(*split_fmt(f)[:2], pos=j) for j, f in enumerate(fmts)]
        if wide:
            for j, f in enumerate(fmts):
                typ, w, prec, left = split_fmt(f)
                if typ != 'x':
                    vals[j] = {'d': 10 ** w, 's': 'Q' * (w + 1)}.get(typ, -9.999999999999999e99)
                    break
        try:
            parser.parse_string(parser.write_values_to_string(vals, k), k)
        except core.CaseTimeout:
            raise
        except Exception:
            pass

    def judge(b, hist):
        names, fmts, cols, width = info[b]
        viol, oc = eval_multi_case(parser, tname, b, names, fmts, cols, width, {})
        for sig, what in viol:
            rec.violation(sig.replace('|crossed', '|after-other-record-kind'), what + ' (same parser used before for %s)' % (hist,),
                          {'sequence': tname, 'history': hist, 'record': b})
        # one live field at its widest fitting / first non-fitting value, after the history
        for j, f in enumerate(fmts):
            typ, w, prec, left = split_fmt(f)
            if typ == 'x':
                continue
            for v in pair_values(typ, w, prec, 'quick')[1:]:
                viol, oc = eval_multi_case(parser, tname, b, names, fmts, cols, width, {j: v})
                for sig, what in viol:
                    rec.violation(sig.replace('|crossed', '|after-other-record-kind'), what + ' (same parser used before for %s)' % (hist,),
                                  {'sequence': tname, 'history': hist, 'record': b})
            break

    wides = (False, True) if tier == 'thorough' else (False,)
    for a in kinds:
        for b in kinds:
            for wide in wides:
                prime(a, wide)
                judge(b, [a + ('*' if wide else '')])
                n += 1
                rec.case((tname, 'seq', a, b, wide), outcome='sequence')
    if tier == 'thorough':
        for c in kinds:
            for b in kinds:
                if b == c or len(info[b][1]) != len(info[c][1]):
                    continue
                for a in kinds:
                    prime(a, False)
                    prime(b, False)
                    judge(c, [a, b])
                    n += 1
                    rec.case((tname, 'seq3', a, b, c), outcome='sequence3')
    rec.count('sequence_cases', n)


def fresh_parser(tname):
    return tables()[tname]


def judge_short(parser, tname, rec_kind, n, hist):
    """A record given as a list of only its first n values: fields 0..n-1 must read back their values, the rest
    absent.  The line may end after field n-1 or be padded to the full record width."""
    names, fmts = parser.specification[rec_kind]
    cols, width = ref_columns(fmts)
    vals = [sentinel(*split_fmt(f)[:2], pos=j) for j, f in enumerate(fmts)][:n]
    base = 'C02|%s|%s|first-%s-of-%d-values|short-list|%s' % (tname, rec_kind, 'all' if n == len(fmts) else ('1' if n == 1 else 'some'), len(fmts), hist[0])
    try:
        s = parser.write_values_to_string(list(vals), rec_kind)
        back = parser.parse_string(s, rec_kind)
    except core.CaseTimeout:
        raise
    except Exception as e:
        return [(base + '|raises', '%d values %r: %r' % (n, vals, e))]
    if len(s) not in (cols[n - 1][1], width):
        return [(base + '|record-width', 'record of the first %d values is %d columns wide (fields end at %d, record at %d): %r'
                 % (n, len(s), cols[n - 1][1], width, s))]
    for j, f in enumerate(fmts):
        tj = f[-1]
        got = back[j] if j < len(back) else None
        if tj == 'x' or j >= n:
            ok = got is None or (isinstance(got, str) and got.strip() == '')
        else:
            ok = got == expected_sentinel(tj, f, vals[j])
        if not ok:
            return [(base + ('|value-lost' if j < n else '|absent-not-absent'),
                     'record written from its first %d values %s: field %d (%s) reads back %r, line %r' % (n, hist[1], j, f, got, s))]
    return []


def short_lists_unit(unit, tier, rec):
    """Records given as a list SHORTER than the record kind (the library does this for generator rows, short
    initial-condition rows, the MULgraph header): every length 1..F; and the history of one parser object - for
    every first length n1 a fresh parser writes n1 values and then every length in ascending order, and another
    one in descending order - so a layout remembered from the first record of a kind cannot hide."""
    _, tname = unit
    spec = tables()[tname].specification
    n = 0
    for rec_kind, (names, fmts) in spec.items():
        F = len(fmts)
        firsts = range(1, F + 1) if (tier == 'thorough' or F <= 6) else sorted({1, 2, F // 2, F - 1, F})
        for n1 in firsts:
            for order in ('ascending', 'descending'):
                parser = fresh_parser(tname)
                for sig, what in judge_short(parser, tname, rec_kind, n1, ('first-record', 'as the first record of the parser')):
                    rec.violation(sig, what, {'short': tname, 'record': rec_kind, 'first': n1, 'order': order})
                lens = range(1, F + 1) if order == 'ascending' else range(F, 0, -1)
                for n2 in lens:
                    for sig, what in judge_short(parser, tname, rec_kind, n2,
                                                 ('after-%s-record' % ('shorter' if n1 < n2 else 'longer' if n1 > n2 else 'equal'),
                                                  'after a first record of %d values (%s lengths since)' % (n1, order))):
                        rec.violation(sig, what, {'short': tname, 'record': rec_kind, 'first': n1, 'order': order})
                    n += 1
                    rec.case((tname, rec_kind, 'short', n1, order, n2), outcome='short-list')
    rec.count('short_list_cases', n)


def primed_readers_unit(rec):
    """The module-level Fortran readers are shared by every caller (t2listing calls fortran_float with blank value
    0.0, the parsers with None, users with anything).  After those functions were called directly on blank and
    non-blank field texts of every width with OTHER blank values, a record with an absent field must still parse
    back as absent and a written value as itself, through parsers with the Fortran read function; and the other
    way round, after the parsers, the direct calls still give their own blank value."""
    import fixed_format_file as fff
    import t2data, t2incons, mulgrids
    null = os.path.join(core.scratch(), 'c02p.tmp')
    specs = {'t2data': t2data.t2data_format_specification,
             't2data_xp': t2data.t2data_extra_precision_format_specification,
             't2incon': t2incons.t2incon_format_specification,
             'mulgrid': mulgrids.mulgrid_format_specification}
    n = 0

    def prime(blank_f, blank_i):
        for w in range(0, 31):
            for text in (' ' * w, '1.5D+02'.rjust(w), '12'.rjust(w), ('1 2').rjust(w), '*' * w):
                try:
                    fff.fortran_float(text, blank_f) if blank_f != 'default' else fff.fortran_float(text)
                    fff.fortran_int(text, blank_i) if blank_i != 'default' else fff.fortran_int(text)
                except Exception:
                    pass

    def judge(primer):
        m = 0
        for tname, spec in specs.items():
            q = fff.fixed_format_file(null, 'w', spec, fff.fortran_read_function)
            q.file.close()
            for kind, (names, fmts) in q.specification.items():
                cols, width = ref_columns(fmts)
                for absent in [None] + [j for j, f in enumerate(fmts) if f[-1] != 'x']:
                    viol, oc = eval_multi_case(q, tname, kind, names, fmts, cols, width, {} if absent is None else {absent: None})
                    m += 1
                    for sig, what in viol:
                        rec.violation(sig.replace('|crossed', '|fortran-parser-after-direct-reader-calls'),
                                      what + ' (after direct calls of fortran_float / fortran_int with blank values %s)' % (primer,),
                                      {'primed': list(primer)})
                # the all-blank record
                back = q.parse_string(' ' * width, kind)
                m += 1
                bad = [(j, v) for j, v in enumerate(back) if not (v is None or (isinstance(v, str) and v.strip() == ''))]
                if bad:
                    rec.violation('C02|%s|%s|%d:%s|%s|blank-record-not-absent|fortran-parser-after-direct-reader-calls'
                                  % (tname, kind, bad[0][0], names[bad[0][0]] if bad[0][0] < len(names) else '?', fmts[bad[0][0]]),
                                  'blank record parses as %r after direct reader calls with blank values %s' % (bad[:3], primer),
                                  {'primed': list(primer)})
        return m

    for primer in (('default', 'default'), (-1.0, -1), (None, None), ('default', 'default')):
        prime(*primer)
        n += judge(primer)
        rec.case(('primed', repr(primer), n), outcome='primed-readers')
        # and back: the direct calls keep their own blank values after the parsers ran
        for w in (0, 1, 5, 10, 15, 20):
            for bf, bi in ((0.0, 0), (-1.0, -1), (None, None)):
                gf, gi = fff.fortran_float(' ' * w, bf), fff.fortran_int(' ' * w, bi)
                n += 1
                if not (gf == bf and type(gf) == type(bf) and gi == bi and type(gi) == type(bi)):
                    rec.violation('C02|fortran_float/fortran_int|blank-value-of-another-caller|width-%d' % w,
                                  'blank field of width %d with blank values (%r, %r) gives (%r, %r) after parsers and other callers used the readers'
                                  % (w, bf, bi, gf, gi), {'primed': list(primer)})
    rec.count('primed_reader_cases', n)


def run_unit(unit, tier, rec):
    if unit[0] == 'short-lists':
        return short_lists_unit(unit, tier, rec)
    if unit[0] == 'primed-readers':
        return primed_readers_unit(rec)
    if unit[0] == 'sequences':
        return sequences_unit(unit, tier, rec)
    if unit[0] == 'pairs':
        return pairs_unit(unit, tier, rec)
    if unit[0] == 'two-parsers':
        return two_parsers_unit(rec)
    if unit[0] == 'containers-and-files':
        return containers_and_files_unit(rec, tier)
    if unit[0] == 'dict-path':
        # the dictionary route (write_value_line / read_value_line) used for PARAM, MULTI, LINEQ, SOLVR,
        # TIMES.1, ROCKS.1.1, mesh-maker, incon timing and MULgraph header records
        n = 0
        for tname, parser in tables().items():
            for rec_kind in dict_records(parser):
                names, fmts = parser.specification[rec_kind]
                for i, f in enumerate(fmts):
                    typ = f[-1]
                    if typ == 'x':
                        continue
                    for kind in (('zero', 'absent') if typ != 's' else ('absent',)):
                        viol = eval_dict_case(parser, tname, rec_kind, i, kind)
                        rec.case((tname, rec_kind, i, 'dict', kind), nontrivial=True, outcome='dict-ok' if not viol else 'dict-bad')
                        n += 1
                        for sig, what in viol:
                            rec.violation(sig, what, {'table': tname, 'record': rec_kind, 'field': i, 'dict': kind})
                # every NAME of the record kind present at once: each must come back (a name without a
                # format of its own would be dropped silently by the writer)
                for sig, what in eval_full_dict_case(parser, tname, rec_kind):
                    rec.violation(sig, what, {'table': tname, 'record': rec_kind, 'full_dict': True})
                rec.case((tname, rec_kind, 'dict', 'full'), nontrivial=True, outcome='dict-full')
                n += 1
        rec.count('dict_path_cases', n)
        rec.sample({'dict_path': 'records written from a dictionary with one field zero / absent', 'cases': n})
        return
    tname, rec_kind = unit
    parser = tables()[tname]
    names, fmts = parser.specification[rec_kind]
    cols, width = ref_columns(fmts)
    for i, f in enumerate(fmts):
        typ, w, prec, left = split_fmt(f)
        if typ == 'x':
            # a skip field writes blanks whatever it is given
            for v in (None, 7, 'q'):
                viol, oc = eval_case(parser, tname, rec_kind, names, fmts, cols, width, i, v, None, rec)
                rec.case((tname, rec_kind, i, repr(v)), nontrivial=False, outcome=oc)
                for sig, what in viol:
                    rec.violation(sig, what, {'table': tname, 'record': rec_kind, 'field': i, 'value': repr(v),
                                              'none_at': None})
            continue
        if typ == 'd':
            values = int_values(w)
        elif typ == 's':
            values = name_values(w)
        else:
            values = real_values(typ, w, tier)
            if typ == 'f':
                values += [s * 10.0 ** k * m for k in range(-3, w + 2) for m in (1.0, 9.99999) for s in (1, -1)]
        values = [None] + values
        nshort = 3 if tier == 'thorough' else 1
        shortlist = [None] + [v for v in values if v is not None and fits(typ, w, prec, v)][:nshort]
        for v in values:
            viol, oc = eval_case(parser, tname, rec_kind, names, fmts, cols, width, i, v, None, rec)
            rec.case((tname, rec_kind, i, repr(v), None), nontrivial=v is not None, outcome=oc)
            for sig, what in viol:
                rec.violation(sig, what, {'table': tname, 'record': rec_kind, 'field': i, 'value': repr(v),
                                          'none_at': None})
        for j in range(len(fmts)):
            if j == i:
                continue
            for v in shortlist:
                viol, oc = eval_case(parser, tname, rec_kind, names, fmts, cols, width, i, v, j, rec)
                rec.case((tname, rec_kind, i, repr(v), j), nontrivial=v is not None, outcome=oc)
                for sig, what in viol:
                    rec.violation(sig, what, {'table': tname, 'record': rec_kind, 'field': i, 'value': repr(v),
                                              'none_at': j})
    rec.sample({'table': tname, 'record': rec_kind, 'fields': len(fmts), 'width': width,
                'example': parser.write_values_to_string(
                    [sentinel(*split_fmt(f)[:2], pos=j) for j, f in enumerate(fmts)], rec_kind)})
    rec.count('fields', len(fmts))
    rec.count('records', 1)


def replay(case):
    if 'containers' in case or 'file_route' in case:
        r = core.Rec()
        containers_and_files_unit(r, 'quick')
        return [(sig, e['what']) for sig, e in r.viol.items()]
    if 'short' in case:
        r = core.Rec()
        short_lists_unit(('short-lists', case['short']), 'thorough', r)
        return [(sig, e['what']) for sig, e in r.viol.items()]
    if 'primed' in case:
        r = core.Rec()
        primed_readers_unit(r)
        return [(sig, e['what']) for sig, e in r.viol.items()]
    if 'sequence' in case:
        r = core.Rec()
        sequences_unit(('sequences', case['sequence']), 'thorough' if (len(case['history']) > 1 or case['history'][0].endswith('*')) else 'quick', r)
        return [(sig, e['what']) for sig, e in r.viol.items()]
    if 'two_parsers' in case or 'two_tables' in case:
        r = core.Rec()
        two_parsers_unit(r)
        return [(sig, e['what']) for sig, e in r.viol.items()]
    parser = tables()[case['table']]
    if 'assign' in case:
        names, fmts = parser.specification[case['record']]
        cols, width = ref_columns(fmts)
        env = {'inf': float('inf'), 'nan': float('nan')}
        assign = {int(k): eval(v, env) for k, v in case['assign'].items()}
        return eval_multi_case(parser, case['table'], case['record'], names, fmts, cols, width, assign)[0]
    if case.get('full_dict'):
        return eval_full_dict_case(parser, case['table'], case['record'])
    if 'dict' in case:
        return eval_dict_case(parser, case['table'], case['record'], case['field'], case['dict'])
    names, fmts = parser.specification[case['record']]
    cols, width = ref_columns(fmts)
    v = case['value']
    val = None if v == 'None' else eval(v, {'inf': float('inf'), 'nan': float('nan')})
    viol, oc = eval_case(parser, case['table'], case['record'], names, fmts, cols, width, case['field'], val,
                         case.get('none_at'), None)
    return viol

ENGINE = 'E2'
TECHNIQUE = 'bounded exhaustive enumeration (every field x value alphabet) on the real writer/parser against a reference column and number model'
LEVEL_TEXT = ('Every field of every record kind of the four format tables is driven with the complete stated value alphabet '
              'through the real write_values_to_string/parse_string; nothing is sampled, so a width, precision or guard '
              'change in any one field is met by a value on each side of its limit.')
LEVEL_NOTE = ('Trusted: ref/fortnum.py number grammar, cumulative-width column model. Values outside the alphabet '
              '(other mantissas) are not claimed; exponent set is reduced in the quick tier.')
