"""C11 - refining / bisecting / splitting / triangulating / decomposing columns and refining layers
conserves plan area and rock volume and tiles the domain conformingly.

E2: complete enumeration of (geometry, operation, region, mode) configurations.  For every configuration the
real method is run on a deep copy of the base geometry and the result is compared with the base through
ref/geomodel.py (exact Fraction polygons built from node coordinates only):

  * total plan area and total rock volume unchanged (reference values, and the library's own geo.area and
    sum of block_volume over its block list, which must agree with the reference);
  * every old column is either still there (same polygon, same surface) or is tiled by 'children' - the new
    columns whose vertices all lie in or on it: their areas sum to its area, they carry its surface, and every
    point of a 7 x 7 interior lattice of the old column lies strictly inside exactly one new column, a child;
  * conformity: no used node within 1e-7 of the interior of a side it is not an end of; two columns have a
    common side (vertex identity, and also by coordinates) exactly when a connection joins them.
"""
import contextlib
import copy
import io
import itertools
import os
import sys
from fractions import Fraction

from mc import core
from ref import geomodel as G

ID = 'C11'
LEVEL = 'exploration'
ENGINE = 'E2'
EXHAUSTIVE = True
RULE = ('geometry family x operation x argument, crossed completely: refine(region, bisect in {False,True,x,y}, '
        'bisect_edge_columns in {none, all outside neighbours of the region}) for every non-empty column subset of '
        'geometries with <= 12 columns and singles / neighbour pairs / disks / rings-with-hole / full on larger ones; '
        'split_column every quadrilateral x node; decompose_columns and triangulate_column on every polygon built '
        'from a triangle/quadrilateral/pentagon plus every admissible assignment of 0, 1 or 2 straight mid-side '
        'node x every rotation of the node list, inside a ring of neighbours; refine_layers every layer subset x '
        'factor 2,3,4; two-step compositions judged against the ORIGINAL columns: split_column then '
        'triangulate_column / refine (3 modes) of each piece and of both, refine of every single column (4 modes) then '
        'refine (2 modes) of each new column and of all, triangulate_column / decompose_columns of the polygons then '
        'refine of the pieces.  Chains on ONE object, judged after every step against the columns before the step and '
        'against the original columns: refine of the whole geometry three times in a row (every bisect sequence in '
        '{False,True}^3 on the 3 x 2); nested local refinement three deep of every single column (the column, then '
        'everything inside it, twice; and: the column, then everything the step before created, twice); '
        'decompose_columns of the polygons then two refinements of the pieces; histories (refine of every region '
        'family, decompose_columns, reduce without one column [+ refine of one column], delete a column + the '
        'connections of one neighbour + check(fix) [+ refine all], refine > refine of the created, decomposed '
        'polygon) each followed by split_column of EVERY quadrilateral at EVERY node on deep copies.  A case is non-trivial when the operation changed the geometry; distinct = distinct '
        '(geometry, operation, canonical argument)')
ASSUMPTIONS = [
    'reference geometry = ref/geomodel.py on node coordinates converted exactly to Fractions; comparisons of areas '
    'and volumes at 1e-9 relative; "vertex in or on the old column" within 1e-9 of the geometry size (mid-side nodes '
    'are rounded floats); hanging-node tolerance 1e-7 absolute as in DESIGN',
    'areas and volumes are also allowed 4 units in the last place of the largest coordinate times the length of the '
    'sides concerned (new node coordinates are rounded floats; at map coordinates of 6e6 m that is 4e-9 m)',
    'reference rock volume of a column = exact area x (surface - bottom of the lowest layer) when positive',
    'refine() only on regions where the region and every neighbour of it is 3- or 4-sided (documented requirement)',
    'bisect_edge_columns: (a) the columns of the transition region, i.e. the outside columns that the same refinement '
    'without bisect_edge_columns replaces by transition columns; (b) with a bisect mode also every outside neighbour '
    'of the region ("columns outside the edge of the refinement area"), some of which touch no refined side - these '
    'must be left as they are; columns not adjacent to the region are not passed',
    'the connection <-> common-side clause is asserted for the documented methods (refine, split_column, '
    'decompose_columns); for the undocumented helper triangulate_column only area, volume, surface and tiling '
    '(it leaves connections to its caller)',
    'lattice points that fall exactly on a side of a new column are counted (lattice_on_side) and not judged',
    'chains: a step is judged against the columns before it when (columns before) x (columns after) <= 40000 '
    '(always for the first step), and always against the original columns; steps that are not operations of this '
    'property (reduce, delete_column + delete_connection + check(fix)) are histories only: the chain goes on only '
    'if the geometry is conforming by the reference after them (connections = common sides), the snapshots are '
    'then taken afresh, and nothing is asserted about them here (C10 does that)',
    'column identity across the operation is by coordinates (names of new columns depend on set iteration order)',
]
BOUNDS = {
    'quick': {'geometries': ['r3x3', 't8', 'mixed6', 'polygons', 'layers', 'r3x3+refined(sample)', 'g7(sample)'],
              'regions': 'every non-empty subset (r3x3: 511, t8: 255); samples: singles on a stride, one pair/disk/ring, full',
              'polygons': 'all 1253 (base, 0..2 mid-side nodes per side, rotation) x {decompose_columns, triangulate_column}',
              'layers': 'every subset of 3 and of 4 layers x factor 2,3,4, also with the atmosphere layer named like a subsurface layer',
              'map coordinates': 'r3x3far, t8far (3-6 m columns at (2780000.37, 6280000.81)): singles, neighbour pairs, disks, '
                                 'rings, full x 4 modes x 2 edge options; split_column; the polygons at rotation 0; '
                                 'g2 with its corner refined once: corner column, its ring, both, and refine>refine',
              'three steps': 'split_column > refine (one piece / both) > refine (everything created) on r3x3, mixed6',
              'layer tops': 'refine_layers also on the 3 x 3 with its top at 137.5 m and on the shipped g5 (top away from 0)',
              'chains': 'three global refinements: r3x2 x {False,True}^3, r3x3, t8, mixed6+decomposed (False,False,False); nested three '
                        'deep on every refinable single column: r3x3 x {False,True}^3 (inside) + (F,F,F) (created), t8 and '
                        'mixed6+decomposed and r3x2 one or two sequences each; polygons with <= 2 mid-side nodes at rotation 0: decompose > refine > refine; '
                        'histories > split_column every quadrilateral x node: r3x3 and mixed6 (refine: singles x 4 modes, pairs x {False, y}, '
                        'disks / rings / full plain; decompose; reduce dropping each column [r3x3: > refine of each other column]; '
                        'delete column i + connections of neighbour j + check(fix)), r3x3 corner / side / centre column > created, '
                        'polygons with <= 2 mid-side nodes at rotation 0 decomposed',
              'compositions': 'split> on r3x3, mixed6; refine>refine on r3x3, t8 singles; polygon>refine at rotation 0, piece 0 and all'},
    'thorough': {'geometries': ['r3x3', 'r4x3', 't8', 'mixed6', 'mixed6+decomposed', 'polygons', 'layers',
                                'r3x3+refined', 'r4x3+refined', 't8+refined', 'g7', 'g7+refined(sample)'],
                 'regions': 'every non-empty subset where <= 12 columns (511 / 4095 / 255 / 4095); larger: all singles, '
                            'all neighbour pairs, all disks, all rings with hole, full',
                 'chains': 'as quick, with r4x3 among the histories, every {False,True}^3 sequence on r3x3, t8 and mixed6+decomposed, '
                           'pairs x 4 modes, reduce > refine on every geometry, unlink+fix > refine all on r3x3, nested '
                           '(created) also (True,True,True) and every r3x3 column > created > splits, all polygons at rotations 0 and 1',
                 'polygons': 'all 1253 x 2', 'layers': 'every subset of 3 and of 4 layers x factor 2,3,4, also with the atmosphere layer named like a subsurface layer'},
}
TECHNIQUE = ('bounded exhaustive enumeration of refinement regions, modes and polygon shapes on the real methods '
             'against an exact-arithmetic reference geometry')
LEVEL_TEXT = ('Every configuration of the stated finite families (all column subsets of the small geometries x 4 bisect '
              'modes x 2 edge-column options; all quadrilateral x node splits; all straight-node polygon shapes x '
              'rotations; all layer subsets x factors) is executed on the real code and judged by an exact reference: '
              'area, volume, per-column tiling with a 49-point interior lattice, surface inheritance, hanging nodes '
              'and connection <-> common side.')
LEVEL_NOTE = ('Between lattice points containment is covered only through the area sums. Geometries are the stated '
              'family, not all geometries; large geometries use the stated region families instead of all subsets. '
              'Trusted: ref/geomodel.py.')

BISECT = [False, True, 'x', 'y']
LATTICE = 7
HANG_TOL = 1e-7


def quiet():
    return contextlib.redirect_stdout(io.StringIO())


# ----------------------------------------------------------------------------------- base geometries

FAR = (2780000.37, 6280000.81)   # map coordinates of the size the shipped g1 / g2 live at


def geo_rect(xs, ys, zs, surfaces, atmos=2, origin=(0., 0.)):
    import mulgrids
    with quiet():
        geo = mulgrids.mulgrid().rectangular(xs, ys, zs, atmos_type=atmos, origin=[origin[0], origin[1], 0.])
        for i, z in surfaces:
            col = geo.columnlist[i]
            col.surface = z
            geo.set_column_num_layers(col)
        geo.setup_block_name_index()
        geo.setup_block_connection_name_index()
    return geo


def geo_t8(dx=12., dy=10., origin=(0., 0.)):
    """2 x 2 squares, every square cut into two triangles (alternating diagonals), built by hand."""
    import mulgrids
    import numpy as np
    with quiet():
        geo = mulgrids.mulgrid(convention=0, atmos_type=2)
        nm = {}
        k = 0
        for j in range(3):
            for i in range(3):
                k += 1
                name = geo.node_name_from_number(k)
                nm[(i, j)] = name
                geo.add_node(mulgrids.node(name, np.array([origin[0] + dx * i, origin[1] + dy * j])))
        k = 0
        tris = []
        for j in range(2):
            for i in range(2):
                a, b, c, d = (i, j), (i + 1, j), (i + 1, j + 1), (i, j + 1)
                if (i + j) % 2 == 0:
                    tris += [(a, b, c), (a, c, d)]
                else:
                    tris += [(a, b, d), (b, c, d)]
        for t in tris:
            k += 1
            geo.add_column(mulgrids.column(geo.column_name_from_number(k), [geo.node[nm[p]] for p in t]))
        connect_all(geo)
        geo.add_layers([10., 15.], 0.)
        geo.set_default_surface()
        for i, z in ((0, -4.), (3, -12.), (6, 3.)):
            col = geo.columnlist[i]
            col.surface = z
            geo.set_column_num_layers(col)
        geo.identify_neighbours()
        geo.setup_block_name_index()
        geo.setup_block_connection_name_index()
    return geo


def connect_all(geo):
    """Adds a connection for every pair of columns with a common side (reference adjacency)."""
    import mulgrids
    m, byid = mesh_of(geo)
    pairs = sorted(tuple(sorted((byid[a].name, byid[b].name))) for a, b in (tuple(k) for k in m.adjacent_pairs()))
    for a, b in pairs:
        if (a, b) not in geo.connection and (b, a) not in geo.connection:
            geo.add_connection(mulgrids.connection([geo.column[a], geo.column[b]]))


def geo_mixed():
    from checks import c10
    geo = c10.seed_mixed()
    with quiet():
        geo.column[' t1'].surface = -13.
        geo.set_column_num_layers(geo.column[' t1'])
        geo.setup_block_name_index()
        geo.setup_block_connection_name_index()
    return geo


def geo_mixed_decomposed():
    geo = geo_mixed()
    with quiet():
        # one call per column: the default-argument form walks the column list while changing it
        for name in [c.name for c in geo.columnlist if c.num_nodes > 4]:
            geo.decompose_columns([name])
        for c in geo.columnlist:
            c.neighbour = set()
        geo.identify_neighbours()
    return geo


def geo_g2():
    import mulgrids
    with quiet():
        return mulgrids.mulgrid(os.path.join(core.REPO, 'tests', 'mulgrid', 'g2.dat'))


def geo_g7():
    import mulgrids
    with quiet():
        return mulgrids.mulgrid(os.path.join(core.REPO, 'tests', 'mulgrid', 'g7.dat'))


def refined(geo):
    with quiet():
        geo.refine()
    return geo


R3 = ([10., 30., 20.], [20., 10., 40.], [10., 20., 15.], [(0, -4.), (4, -13.), (5, -31.), (8, 6.)])
R4 = ([10., 30., 20., 15.], [20., 10., 40.], [10., 20., 15., 5.], [(1, -4.), (5, -13.), (6, -31.), (10, 6.), (11, -47.)])

_cache = {}


def base(name):
    if name in _cache:
        return _cache[name]
    sys.setrecursionlimit(max(sys.getrecursionlimit(), 20000))
    plus = name.endswith('+refined')
    root = name[:-len('+refined')] if plus else name
    if root == 'r3x3':
        geo = geo_rect(*R3)
    elif root == 'r3x2':
        geo = geo_rect(R3[0], R3[1][:2], R3[2], [(0, -4.), (2, -12.), (4, -13.), (5, -31.)])
    elif root == 'r3x3n':
        # layer names as in the shipped g4.dat: the atmosphere layer is called ' 1', a name the layer-name
        # generator also gives to a subsurface layer
        geo = geo_rect(*R3)
        with quiet():
            geo.rename_layer([' 3', ' 2', ' 1', ' 0'], [' 4', ' 3', ' 2', ' 1'])
    elif root == 'r3x3z':
        # the same 3 x 3, the top of the model at 137.5 m instead of 0
        import mulgrids
        with quiet():
            geo = mulgrids.mulgrid().rectangular(R3[0], R3[1], R3[2], atmos_type=2, origin=[0., 0., 137.5])
            for i, z in R3[3]:
                col = geo.columnlist[i]
                col.surface = z + 137.5
                geo.set_column_num_layers(col)
            geo.setup_block_name_index()
            geo.setup_block_connection_name_index()
    elif root == 'g5':
        import mulgrids
        with quiet():
            geo = mulgrids.mulgrid(os.path.join(core.REPO, 'tests', 'mulgrid', 'g5.dat'))
    elif root == 'r3x3far':
        # columns 3-6 m wide at map coordinates, not exactly representable (so sums of products round)
        geo = geo_rect([3.3, 5.7, 4.1], [4.3, 3.1, 5.9], R3[2], R3[3], origin=FAR)
    elif root == 't8far':
        geo = geo_t8(4.3, 3.1, FAR)
    elif root == 'g2+corner':
        # the shipped geometry at map coordinates, its south-west corner column refined once
        geo = geo_g2()
        with quiet():
            geo.refine([canon_cols(geo)[0].name])
    elif root == 'r4x3':
        geo = geo_rect(*R4)
    elif root == 't8':
        geo = geo_t8()
    elif root == 'mixed6':
        geo = geo_mixed()
    elif root == 'mixed6+decomposed':
        geo = geo_mixed_decomposed()
    elif root == 'g7':
        geo = geo_g7()
    else:
        raise core.HarnessError('unknown geometry %r' % name)
    if plus:
        geo = refined(geo)
    _cache[name] = geo
    return geo


# ----------------------------------------------------------------------------------- snapshots

def rc(v):
    return round(float(v), 7) + 0.0


def col_key(col):
    return tuple(sorted((rc(n.pos[0]), rc(n.pos[1])) for n in col.node))


def canon_cols(geo):
    return sorted(geo.columnlist, key=lambda c: (col_key(c), c.name))


def canon_nodes(geo):
    return sorted(geo.nodelist, key=lambda n: (rc(n.pos[0]), rc(n.pos[1]), n.name))


def mesh_of(geo):
    nodes = {}
    for n in geo.nodelist:
        nodes[id(n)] = (n.pos[0], n.pos[1])
    cols = {}
    byid = {}
    for c in geo.columnlist:
        for n in c.node:
            if id(n) not in nodes:
                nodes[id(n)] = (n.pos[0], n.pos[1])
        cols[id(c)] = [id(n) for n in c.node]
        byid[id(c)] = c
    return G.Mesh(nodes, cols), byid


class Snap(object):
    """Plain-data picture of a geometry (taken before the operation)."""

    def __init__(self, geo):
        m, byid = mesh_of(geo)
        self.cols = []
        for c in geo.columnlist:
            pg = m.polygon(id(c))
            self.cols.append({'poly': pg, 'key': tuple(sorted(pg)), 'surface': c.surface, 'area': G.area(pg),
                              'n': len(pg)})
        self.area = sum((c['area'] for c in self.cols), Fraction(0))
        self.zbot = geo.layerlist[-1].bottom if geo.layerlist else None
        self.ztop = geo.layerlist[0].bottom if geo.layerlist else None
        self.volume = ref_volume(self.cols, self.zbot)
        self.lib_area = float(geo.area)
        self.lib_volume = lib_volume(geo)
        xs = [p[0] for c in self.cols for p in c['poly']]
        ys = [p[1] for c in self.cols for p in c['poly']]
        self.size = float(max(max(xs) - min(xs), max(ys) - min(ys)))
        import numpy as np
        # 4 units in the last place of the largest coordinate
        self.eps = 4.0 * float(np.spacing(max(abs(float(min(xs))), abs(float(max(xs))), abs(float(min(ys))),
                                              abs(float(max(ys))), 1.0)))
        self.perim = sum(perimeter(c['poly']) for c in self.cols)
        self.height = max([0.0] + [float(c['surface']) - float(self.zbot) for c in self.cols if c['surface'] is not None])
        self.layers = [(l.name, l.bottom, l.top) for l in geo.layerlist]
        self.colvol = dict((c['key'], c['area'] * max(Fraction(0), G.fr(c['surface']) - G.fr(self.zbot)))
                           for c in self.cols if c['surface'] is not None)


def ref_volume(cols, zbot):
    v = Fraction(0)
    for c in cols:
        if c['surface'] is None:
            continue
        h = G.fr(c['surface']) - G.fr(zbot)
        if h > 0:
            v += c['area'] * h
    return v


def lib_volume(geo):
    """Sum of the library's block volumes over the underground blocks of its own block list."""
    v = 0.0
    n = 0
    for lay in geo.layerlist[1:]:
        for col in geo.columnlist:
            if geo.block_name(lay.name, col.name) in geo.block_name_index:
                bv = geo.block_volume(lay, col)
                if bv is not None:
                    v += bv
                    n += 1
    return v


def close(a, b, rel=1e-9, slack=0.0):
    """slack: absolute allowance for the rounding of new node coordinates (a mid-side node is the rounded mean
    of two floats: at map coordinates of 6e6 that is 5e-10 m, times the length of the sides it moves)."""
    a, b = float(a), float(b)
    return abs(a - b) <= rel * max(1.0, abs(a), abs(b)) + slack


def perimeter(pg):
    import math
    n = len(pg)
    return sum(math.hypot(float(pg[i][0] - pg[(i + 1) % n][0]), float(pg[i][1] - pg[(i + 1) % n][1])) for i in range(n))


_lattice_cache = {}


def lattice(key, pg):
    pts = _lattice_cache.get(key)
    if pts is None:
        pts = G.interior_lattice(pg, LATTICE)
        _lattice_cache[key] = pts
    return pts


# ----------------------------------------------------------------------------------- the oracle

def judge(before, geo, connections=True, stats=None):
    """Compares the geometry after the operation with the snapshot taken before it.
    Returns a list of (clause, text)."""
    out = []
    m, byid = mesh_of(geo)
    after = {}
    for cid in m.columns:
        pg = m.polygon(cid)
        xs = [p[0] for p in pg]
        ys = [p[1] for p in pg]
        after[cid] = {'poly': pg, 'key': tuple(sorted(pg)), 'surface': byid[cid].surface, 'area': G.area(pg),
                      'box': (min(xs), max(xs), min(ys), max(ys))}
    # orientation of every new column
    for cid, a in after.items():
        if a['area'] <= 0:
            out.append(('orientation', 'a new %d-sided column has signed area %r' % (len(a['poly']), float(a['area']))))
            break
    # totals
    total = sum((a['area'] for a in after.values()), Fraction(0))
    if not close(total, before.area, slack=before.eps * before.perim):
        out.append(('total-area', 'total plan area %r -> %r' % (float(before.area), float(total))))
    if not close(geo.area, total, slack=before.eps * before.perim):
        out.append(('library-area', "geo.area = %r but the columns' polygons add up to %r" % (float(geo.area), float(total))))
    zbot = geo.layerlist[-1].bottom
    vol = ref_volume(after.values(), zbot)
    if not close(vol, before.volume, slack=before.eps * before.perim * before.height):
        out.append(('total-volume', 'total rock volume %r -> %r' % (float(before.volume), float(vol))))
    try:
        lv = lib_volume(geo)
        if not close(lv, vol, slack=before.eps * before.perim * before.height):
            out.append(('library-volume', "sum of the library's block volumes = %r but the reference volume is %r"
                        % (float(lv), float(vol))))
    except Exception as e:
        out.append(('library-volume-raises', 'block_volume over the block list raised %s' % type(e).__name__))
    # tiling
    bykey = {}
    for cid, a in after.items():
        bykey.setdefault(a['key'], []).append(cid)
    tol = max(1e-9 * max(1.0, before.size), before.eps)
    changed = 0
    nlat = 0
    on_side = 0
    for o in before.cols:
        same = bykey.get(o['key'], [])
        if same and close(after[same[0]]['area'], o['area']):
            if len(same) > 1:
                out.append(('duplicate-column', 'two columns on the same vertices'))
            if after[same[0]]['surface'] != o['surface']:
                out.append(('surface-untouched-column', 'an untouched column changed surface %r -> %r'
                            % (o['surface'], after[same[0]]['surface'])))
            continue
        changed += 1
        kids = m.columns_within(o['poly'], tol)
        ka = sum((after[k]['area'] for k in kids), Fraction(0))
        if not close(ka, o['area'], slack=before.eps * 4 * perimeter(o['poly'])):
            out.append(('children-area', 'a %d-sided column of area %r is replaced by %d column(s) inside it of total '
                        'area %r' % (o['n'], float(o['area']), len(kids), float(ka))))
        for k in kids:
            if after[k]['surface'] != o['surface']:
                out.append(('surface-inherit', 'a new column has surface %r inside an old column of surface %r'
                            % (after[k]['surface'], o['surface'])))
                break
        kidset = set(kids)
        gaps = overlaps = strays = 0
        for p in lattice(o['key'], o['poly']):
            nlat += 1
            inside, on = [], []
            for cid, a in after.items():
                x0, x1, y0, y1 = a['box']
                if x0 <= p[0] <= x1 and y0 <= p[1] <= y1:
                    r = G.point_in_polygon(p, a['poly'])
                    if r == 'in':
                        inside.append(cid)
                    elif r == 'on':
                        on.append(cid)
            if on and len(inside) == 0:
                on_side += 1
                continue
            if len(inside) == 0:
                gaps += 1
            elif len(inside) > 1:
                overlaps += 1
            elif inside[0] not in kidset:
                strays += 1
        if gaps:
            out.append(('lattice-gap', '%d interior point(s) of an old %d-sided column lie in no new column' % (gaps, o['n'])))
        if overlaps:
            out.append(('lattice-overlap', '%d interior point(s) of an old column lie in more than one new column' % overlaps))
        if strays:
            out.append(('lattice-outside-parent', '%d interior point(s) of an old column lie in a new column that is '
                        'not contained in it' % strays))
    # conformity
    # (nodes of the columns that are not old columns; an untouched column's own nodes were conforming before)
    oldkeys = set(o['key'] for o in before.cols)
    newnodes = set()
    for cid, a in after.items():
        if a['key'] not in oldkeys:
            newnodes.update(m.columns[cid])
    hang = m.hanging_nodes(HANG_TOL, only_nodes=newnodes)
    if hang:
        out.append(('hanging-node', '%d node(s) lie in the interior of a side they are not an end of' % len(hang)))
    if m.overfull_edges():
        out.append(('side-of-three-columns', 'a side belongs to more than two columns'))
    adj = m.adjacent_pairs()
    adjc = m.adjacent_pairs_by_coords()
    if any(k not in adj for k in adjc):
        out.append(('coincident-nodes', 'columns have a common side by coordinates but through different node objects'))
    if connections:
        conn = set()
        bad = 0
        for con in geo.connectionlist:
            k = frozenset((id(con.column[0]), id(con.column[1])))
            conn.add(k)
            if k not in adj:
                bad += 1
        miss = [k for k in adj if k not in conn]
        if miss:
            out.append(('side-without-connection', '%d pair(s) of columns have a common side and no connection' % len(miss)))
        if bad:
            out.append(('connection-without-side', '%d connection(s) join columns with no common side' % bad))
    if stats is not None:
        stats['changed'] = changed
        stats['lattice'] = nlat
        stats['on_side'] = on_side
        stats['columns_after'] = len(after)
    # keep one entry per clause
    seen, uniq = set(), []
    for c, t in out:
        if c not in seen:
            seen.add(c)
            uniq.append((c, t))
    return uniq


# ----------------------------------------------------------------------------------- regions

def adjacency(geo):
    cols = canon_cols(geo)
    idx = dict((id(c), i) for i, c in enumerate(cols))
    m, byid = mesh_of(geo)
    nbr = dict((i, set()) for i in range(len(cols)))
    for k in m.adjacent_pairs():
        a, b = tuple(k)
        nbr[idx[a]].add(idx[b])
        nbr[idx[b]].add(idx[a])
    return cols, nbr


def regions_for(geo, how):
    cols, nbr = adjacency(geo)
    n = len(cols)
    out = []
    if how == 'all':
        for k in range(1, n + 1):
            out.extend(list(s) for s in itertools.combinations(range(n), k))
        return out
    seen = set()

    def add(S):
        t = tuple(sorted(S))
        if t and t not in seen:
            seen.add(t)
            out.append(list(t))
    if how == 'singles':
        for i in range(n):
            add([i])
        return out
    if how == 'corner':
        # the columns nearest the south-west corner: the first one, its ring, the ring with it
        add([0])
        add(sorted(nbr[0]))
        add([0] + sorted(nbr[0]))
        return out
    if how == 'families':
        for i in range(n):
            add([i])
        for i in range(n):
            for j in sorted(nbr[i]):
                if i < j:
                    add([i, j])
        for i in range(n):
            add([i] + sorted(nbr[i]))
        for i in range(n):
            add(sorted(nbr[i]))
        add(range(n))
        return out
    if how == 'sample':
        step = max(1, n // 6)
        for i in range(0, n, step):
            add([i])
        mid = n // 2
        if nbr[mid]:
            add([mid, sorted(nbr[mid])[0]])
        add([mid] + sorted(nbr[mid]))
        add(sorted(nbr[mid]))
        add(range(n))
        return out
    raise core.HarnessError(how)


def refinable(geo, cols, nbr, S):
    ring = set(S)
    for i in S:
        ring |= nbr[i]
    return all(len(cols[i].node) in (3, 4) for i in ring)


# ----------------------------------------------------------------------------------- polygons for decomposition

BASES = {
    'tri': [(0, 0), (40, 0), (10, 30)],
    'quad': [(0, 0), (40, 0), (44, 32), (-4, 28)],
    'pent': [(0, 0), (30, -6), (48, 20), (24, 44), (-8, 26)],
}


def polygon_cases():
    cases = []
    for bname in ('tri', 'quad', 'pent'):
        m = len(BASES[bname])
        # 0, 1 or 2 straight mid-side nodes on every side; 5 or more sides; at most 4 straight angles, plus
        # the one-per-side polygons with 5 (pentagon base)
        for counts in itertools.product((0, 1, 2), repeat=m):
            k = sum(counts)
            if m + k < 5 or (k > 4 and max(counts) > 1) or k > 5:
                continue
            for r in range(m + k):
                cases.append((bname, list(counts), r))
    return cases


def geo_polygon(bname, E, r, far=False):
    """The polygon (base + E[i] straight mid-side nodes on side i: one at the middle, two at the quarter points -
    exact in binary; node list rotated by r) with one outer neighbour quadrilateral on every side."""
    import mulgrids
    import numpy as np
    basepts = [np.array([float(x), float(y)]) for x, y in BASES[bname]]
    if far:
        # about one eighth of the size (5 m), at map coordinates
        basepts = [0.13 * p + np.array(FAR) for p in basepts]
    m = len(basepts)
    with quiet():
        geo = mulgrids.mulgrid(convention=0, atmos_type=2)
        count = [0]

        def newnode(pos):
            count[0] += 1
            nd = mulgrids.node(geo.node_name_from_number(count[0]), np.array(pos, dtype=float))
            geo.add_node(nd)
            return nd
        ring = []          # (node, index of the base side that *starts* here or that it lies on)
        sides = []         # (a, b, base side)
        corner = [newnode(p) for p in basepts]
        for i in range(m):
            a, b = corner[i], corner[(i + 1) % m]
            ring.append(a)
            if E[i] == 1:
                mid = newnode(0.5 * (a.pos + b.pos))
                ring.append(mid)
                sides += [(a, mid, i), (mid, b, i)]
            elif E[i] == 2:
                m1 = newnode(0.75 * a.pos + 0.25 * b.pos)
                m2 = newnode(0.25 * a.pos + 0.75 * b.pos)
                ring += [m1, m2]
                sides += [(a, m1, i), (m1, m2, i), (m2, b, i)]
            else:
                sides.append((a, b, i))
        ring = ring[r:] + ring[:r]
        ccount = [0]

        def newcol(nodes, surface=None):
            ccount[0] += 1
            c = mulgrids.column(geo.column_name_from_number(ccount[0]), nodes, surface=surface)
            geo.add_column(c)
            return c
        centre = newcol(list(ring))
        outnode = {}
        for a, b, i in sides:
            d = basepts[(i + 1) % m] - basepts[i]
            out = 0.25 * np.array([d[1], -d[0]])
            for nd in (a, b):
                if (id(nd), i) not in outnode:
                    outnode[(id(nd), i)] = newnode(nd.pos + out)
            newcol([b, a, outnode[(id(a), i)], outnode[(id(b), i)]])
        connect_all(geo)
        geo.add_layers([10., 10.], 0.)
        geo.set_default_surface()
        centre.surface = -4.
        geo.set_column_num_layers(centre)
        geo.identify_neighbours()
        geo.setup_block_name_index()
        geo.setup_block_connection_name_index()
    return geo, centre.name


# ----------------------------------------------------------------------------------- cases

SITE = {'refine': 'refine', 'refine_all': 'refine', 'split': 'split_column', 'decompose': 'decompose_columns',
        'triangulate': 'triangulate_column', 'refine_layers': 'refine_layers'}


def new_columns(before, geo):
    """The columns of geo that were not in the snapshot (by vertex coordinates), in canonical order."""
    old = set(c['key'] for c in before.cols)
    return [c for c in canon_cols(geo) if tuple(sorted(G.poly([n.pos for n in c.node]))) not in old]


def count_new(case):
    """How many columns the (single-step) case creates - used to enumerate the second steps."""
    geo = copy.deepcopy(base(case['geo']))
    before = Snap(geo)
    cols = canon_cols(geo)
    with quiet():
        if case['op'] == 'refine':
            geo.refine([cols[i].name for i in case['region']], bisect=case['bisect'])
        elif case['op'] == 'split':
            geo.split_column(cols[case['column']].name, canon_nodes(geo)[case['node']].name)
    return len(new_columns(before, geo))


def compose_cases(tier):
    """Two-step compositions: split_column then triangulate / refine of each piece and of both; refine of a
    single column then refine of each new column and of all of them; triangulate_column / decompose_columns of a
    straight-node polygon then refine of the pieces."""
    cases = []
    for g in (['r3x3', 'mixed6'] if tier == 'quick' else ['r3x3', 'mixed6', 'r4x3']):
        for c in split_cases(g):
            for piece in (0, 1, 'all'):
                thens = [{'op': 'triangulate'}, {'op': 'refine', 'bisect': False}]
                if piece != 'all':
                    thens += [{'op': 'refine', 'bisect': True}, {'op': 'refine', 'bisect': 'x'}]
                for t in thens:
                    cases.append(dict(c, then=dict(t, piece=piece)))
    # three steps: split_column, refine of the pieces (one / both; their neighbours become transition columns),
    # refine of everything created so far - names freed by one step are handed out again by the next
    for g in (['r3x3', 'mixed6'] if tier == 'quick' else ['r3x3', 'mixed6', 'r4x3']):
        for c in split_cases(g):
            for piece in (0, 'all'):
                for b2 in ((False,) if tier == 'quick' else (False, True)):
                    cases.append(dict(c, then={'op': 'refine', 'bisect': False, 'piece': piece},
                                      then2={'op': 'refine', 'bisect': b2, 'piece': 'all'}))
    for g in (['r3x3', 't8'] if tier == 'quick' else ['r3x3', 't8', 'r4x3', 'mixed6+decomposed']):
        for c in refine_cases(g, 'singles', edge_options=(False,)):
            if c['op'] != 'refine':
                continue
            try:
                k = count_new(c)
            except Exception:
                k = 1           # the single-step case reports the failure
            for piece in list(range(k)) + ['all']:
                for b in (False, True):
                    cases.append(dict(c, then={'op': 'refine', 'bisect': b, 'piece': piece}))
    # the shipped geometry at map coordinates: its corner, refined once in the base, twice and three times here
    for b in ([False] if tier == 'quick' else [False, True]):
        cases.append({'op': 'refine', 'geo': 'g2+corner', 'region': [0], 'bisect': b,
                      'then': {'op': 'refine', 'bisect': b, 'piece': 'all'}})
    for g in ('r3x3far', 't8far'):
        for c in refine_cases(g, 'singles', bisects=[False, True], edge_options=(False,)):
            if c['op'] == 'refine':
                cases.append(dict(c, then={'op': 'refine', 'bisect': False, 'piece': 'all'}))
    for bname, E, r in polygon_cases():
        if r != 0 and tier == 'quick':
            continue
        if r not in (0, 1) and tier != 'quick':
            continue
        for op in ('triangulate', 'decompose'):
            for piece in ('all', 0):
                cases.append({'op': op, 'base': bname, 'mids': E, 'rot': r,
                              'then': {'op': 'refine', 'bisect': False, 'piece': piece}})
    return cases


def run_case(case):
    """Executes one configuration.  Returns (violations [(sig, what)], nontrivial, outcome, stats)."""
    kind = case['op']
    stats = {}
    if kind == 'build':
        # a base geometry that is itself produced by refine() / decompose_columns()
        _cache.pop(case['geo'], None)
        try:
            with quiet(), core.timelimit(300):
                base(case['geo'])
        except core.HarnessError:
            raise
        except Exception as e:
            site = 'decompose_columns' if 'decomposed' in case['geo'] else 'refine'
            return [('%s|%s|raises-%s|building %s' % (ID, site, type(e).__name__, case['geo']),
                     'building the base geometry %s raised %s: %s' % (case['geo'], type(e).__name__, str(e)[:200]))], \
                True, 'build-raised', stats
        return [], False, 'build-ok', stats
    site = SITE[kind]
    if kind in ('decompose', 'triangulate'):
        geo, cname = geo_polygon(case['base'], case['mids'], case['rot'], far=bool(case.get('far')))
        klass = '%s+%dmid%s%s' % (case['base'], sum(case['mids']), ',two-on-a-side' if 2 in case['mids'] else '',
                                  ',map-coordinates' if case.get('far') else '')
    else:
        geo = copy.deepcopy(base(case['geo']))
        klass = ''
    before = Snap(geo)
    ncol0 = len(geo.columnlist)
    connections = True
    try:
        with quiet(), core.timelimit(120):
            if kind == 'refine':
                cols = canon_cols(geo)
                names = [cols[i].name for i in case['region']]
                shapes = sorted(set(len(cols[i].node) for i in case['region']))
                klass = 'bisect=%s,edge=%s,%s' % (case['bisect'], 'yes' if case.get('edge') else 'no',
                                                 '+'.join({3: 'tri', 4: 'quad'}.get(s, str(s)) for s in shapes))
                if case['geo'].endswith('far') or case['geo'].startswith('g2'):
                    klass += ',map-coordinates'
                edge = []
                if case.get('edge') == 'all':
                    cols_a, nbr_a = adjacency(geo)
                    edge = sorted(set().union(*[nbr_a[i] for i in case['region']]) - set(case['region']))
                    edge = [cols_a[i].name for i in edge]
                    klass = klass.replace('edge=yes', 'edge=all-neighbours')
                elif case.get('edge'):
                    edge = transition_columns(case, before)
                    stats['edge_columns'] = len(edge)
                    if not edge:
                        return [], False, 'refine:no-transition-columns', stats
                    edge = [cols[i].name for i in edge]
                geo.refine(names, bisect=case['bisect'], bisect_edge_columns=edge)
            elif kind == 'refine_all':
                klass = 'bisect=%s,default-argument' % (case['bisect'],)
                geo.refine(bisect=case['bisect'])
            elif kind == 'split':
                cols = canon_cols(geo)
                nodes = canon_nodes(geo)
                klass = 'quad'
                ok = geo.split_column(cols[case['column']].name, nodes[case['node']].name)
                if ok is not True:
                    return [('%s|split_column|returns-%r|quad' % (ID, ok),
                             'split_column of a quadrilateral at one of its nodes returned %r' % (ok,))], True, 'refused', stats
            elif kind == 'decompose':
                geo.decompose_columns([cname])
            elif kind == 'triangulate':
                geo.triangulate_column(cname)
                # an undocumented helper: connections and name lists are left to its caller
                geo.setup_block_name_index()
                geo.setup_block_connection_name_index()
                connections = False
            elif kind == 'refine_layers':
                names = [geo.layerlist[i].name for i in case['layers']]
                klass = 'factor=%d' % case['factor']
                geo.refine_layers(names, factor=case['factor'])
            else:
                raise core.HarnessError('unknown op %r' % kind)
            for t in (case.get('then'), case.get('then2')):
                if not t:
                    continue
                # a further step of a composition, applied to the columns created so far; the result is
                # judged against the ORIGINAL columns below
                first_site = site
                site = SITE[t['op']]
                klass = 'after=%s,%s' % (first_site, klass)
                if t['op'] == 'refine':
                    klass += ',bisect=%s' % (t['bisect'],)
                new = new_columns(before, geo)
                if t['piece'] == 'all':
                    targets = new
                else:
                    targets = new[t['piece']:t['piece'] + 1]
                if not targets:
                    return [], False, 'compose:no-such-piece', stats
                if t['op'] == 'triangulate':
                    for c in targets:
                        geo.triangulate_column(c.name)
                    geo.setup_block_name_index()
                    geo.setup_block_connection_name_index()
                    connections = False
                elif t['op'] == 'refine':
                    cols2, nbr2 = adjacency(geo)
                    idx2 = dict((id(c), i) for i, c in enumerate(cols2))
                    S2 = [idx2[id(c)] for c in targets]
                    if not refinable(geo, cols2, nbr2, S2):
                        return [], False, 'compose:not-refinable', stats
                    if not connections:
                        # (after triangulate_column the caller adds the connections, as decompose_columns does)
                        connect_all(geo)
                        geo.identify_neighbours()
                    geo.refine([c.name for c in targets], bisect=t['bisect'])
                    connections = True
                elif t['op'] == 'decompose':
                    geo.decompose_columns([c.name for c in targets])
                else:
                    raise core.HarnessError('unknown second step %r' % (t,))
    except core.CaseTimeout:
        return [('%s|%s|timeout|%s' % (ID, site, klass), 'did not return within 120 s')], True, 'timeout', stats
    except core.HarnessError:
        raise
    except Exception as e:
        return [('%s|%s|raises-%s|%s' % (ID, site, type(e).__name__, klass),
                 '%s raised %s: %s' % (site, type(e).__name__, str(e)[:200]))], True, 'raised', stats
    with quiet():
        found = judge(before, geo, connections=connections, stats=stats)
    if kind == 'refine_layers':
        found += judge_layers(before, geo, case)
    viol = [('%s|%s|%s|%s' % (ID, site, clause, klass), 'after %s: %s' % (site, text)) for clause, text in found]
    nontrivial = stats.get('changed', 0) > 0 or (kind == 'refine_layers')
    outcome = '%s%s%s:%s' % (kind, '>' + case['then']['op'] if case.get('then') else '',
                             '>' + case['then2']['op'] if case.get('then2') else '',
                           'changed' if nontrivial else 'unchanged')
    return viol, nontrivial, outcome, stats


def judge_layers(before, geo, case):
    """The vertical analogue of tiling: same top and bottom, contiguous layers, every old interface kept,
    the chosen layers cut into 'factor' slices; per-column rock volume unchanged."""
    out = []
    L = geo.layerlist
    old = before.layers
    if not close(L[0].bottom, old[0][1]) or not close(L[-1].bottom, old[-1][1]):
        out.append(('layer-extent', 'top/bottom elevation %r/%r -> %r/%r' % (old[0][1], old[-1][1], L[0].bottom, L[-1].bottom)))
    for a, b in zip(L[:-1], L[1:]):
        if not close(b.top, a.bottom) or not (b.bottom < b.top):
            out.append(('layer-contiguity', 'layer %r spans %r..%r under a layer with bottom %r' % (b.name, b.bottom, b.top, a.bottom)))
            break
    newb = [l.bottom for l in L]
    for nm, bot, top in old:
        if not any(close(bot, x) for x in newb):
            out.append(('layer-interface-lost', 'the old interface at %r is no longer a layer boundary' % bot))
            break
    sel = case['layers'] or list(range(1, len(old)))
    want = len(old) + (case['factor'] - 1) * len(sel)
    if len(L) != want:
        out.append(('layer-count', '%d layers after refining %d of %d by %d (expected %d)'
                    % (len(L), len(sel), len(old) - 1, case['factor'], want)))
    # per-column volume through the library's block volumes
    try:
        for col in geo.columnlist:
            v = 0.0
            for lay in L[1:]:
                if geo.block_name(lay.name, col.name) in geo.block_name_index:
                    bv = geo.block_volume(lay, col)
                    v += bv or 0.0
            key = tuple(sorted(G.poly([n.pos for n in col.node])))
            if key in before.colvol and not close(v, before.colvol[key]):
                out.append(('column-volume', 'rock volume of a column %r -> %r' % (float(before.colvol[key]), float(v))))
                break
    except Exception as e:
        out.append(('column-volume-raises', 'block_volume raised %s' % type(e).__name__))
    return out


def transition_columns(case, before):
    """Canonical indices of the columns outside the region that the plain refinement (no bisect_edge_columns)
    replaces by transition columns - the documented meaning of 'columns in the transition region'."""
    geo = copy.deepcopy(base(case['geo']))
    cols = canon_cols(geo)
    keys = [tuple(sorted(G.poly([n.pos for n in c.node]))) for c in cols]
    geo.refine([cols[i].name for i in case['region']], bisect=case['bisect'])
    left = set(tuple(sorted(G.poly([n.pos for n in c.node]))) for c in geo.columnlist)
    region = set(case['region'])
    return [i for i, k in enumerate(keys) if i not in region and k not in left]


def refine_cases(gname, how, bisects=BISECT, edge_options=(False, True), whole=True):
    geo = base(gname)
    cols, nbr = adjacency(geo)
    n = len(cols)
    cases = []
    for S in regions_for(geo, how):
        if not refinable(geo, cols, nbr, S):
            continue
        outside = sorted(set().union(*[nbr[i] for i in S]) - set(S))
        for b in bisects:
            for e in edge_options:
                if e and not outside:
                    continue
                c = {'op': 'refine', 'geo': gname, 'region': S, 'bisect': b}
                if e:
                    # edge columns = the transition columns of the plain refinement (found when the case runs);
                    # their own neighbours must be refinable too
                    if not all(len(cols[j].node) in (3, 4) for i in outside for j in nbr[i]):
                        continue
                    if e == 'all':
                        # every outside neighbour of the region ("columns outside the edge of the refinement
                        # area"): with a bisect mode some of them touch no refined side
                        if not b:
                            continue        # (without bisect: the same columns as the transition region)
                        c['edge'] = 'all'
                    else:
                        c['edge'] = True
                cases.append(c)
    if whole and all(len(c.node) in (3, 4) for c in cols):
        for b in bisects:
            cases.append({'op': 'refine_all', 'geo': gname, 'bisect': b})
    return cases


def split_cases(gname):
    geo = base(gname)
    cols = canon_cols(geo)
    nodes = canon_nodes(geo)
    nidx = dict((id(n), i) for i, n in enumerate(nodes))
    return [{'op': 'split', 'geo': gname, 'column': i, 'node': nidx[id(n)]}
            for i, c in enumerate(cols) if len(c.node) == 4 for n in c.node]


def layer_cases(gname, few=False):
    geo = base(gname)
    nl = len(geo.layerlist) - 1
    cases = []
    if few:
        # a shipped geometry with many layers: all layers, the first, the last, a middle pair
        for f in (2, 3):
            for L in ([], [1], [nl], [nl // 2, nl // 2 + 1]):
                cases.append({'op': 'refine_layers', 'geo': gname, 'layers': L, 'factor': f})
        return cases
    for f in (2, 3, 4):
        cases.append({'op': 'refine_layers', 'geo': gname, 'layers': [], 'factor': f})
        for k in range(1, nl + 1):
            for L in itertools.combinations(range(1, nl + 1), k):
                cases.append({'op': 'refine_layers', 'geo': gname, 'layers': list(L), 'factor': f})
    return cases


def all_cases(tier):
    cases = []

    def family(fn, gname, *args, **kw):
        """The cases of one family; when the base geometry itself cannot be built (it is made with the
        methods under test) that is one violating case, not a failure of the harness."""
        try:
            with quiet():
                cases.extend(fn(gname, *args, **kw))
        except core.HarnessError:
            raise
        except Exception:
            cases.append({'op': 'build', 'geo': gname})

    family(refine_cases, 'r3x3', 'all', edge_options=(False, True, 'all'))
    family(refine_cases, 't8', 'all', edge_options=(False, True, 'all'))
    family(refine_cases, 'mixed6', 'all')
    family(split_cases, 'r3x3')
    family(split_cases, 'mixed6')
    for bname, E, r in polygon_cases():
        for op in ('decompose', 'triangulate'):
            cases.append({'op': op, 'base': bname, 'mids': E, 'rot': r})
    family(layer_cases, 'r3x3')
    family(layer_cases, 'r4x3')
    family(layer_cases, 't8')
    family(layer_cases, 'r3x3n')
    family(layer_cases, 'r3x3z')
    family(layer_cases, 'g5', few=True)
    # the same small geometries with columns of 3-6 m at map coordinates (2.78e6, 6.28e6), and the shipped
    # geometry that lives there, refined in its corner
    family(refine_cases, 'r3x3far', 'families' if tier == 'quick' else 'all')
    family(refine_cases, 't8far', 'families' if tier == 'quick' else 'all')
    family(split_cases, 'r3x3far')
    for bname, E, r in polygon_cases():
        if r == 0 or tier != 'quick':
            for op in ('decompose', 'triangulate'):
                cases.append({'op': op, 'base': bname, 'mids': E, 'rot': r, 'far': True})
    family(refine_cases, 'g2+corner', 'corner', bisects=[False] if tier == 'quick' else BISECT, edge_options=(False,),
           whole=(tier != 'quick'))
    try:
        with quiet():
            cases.extend(compose_cases(tier))
    except core.HarnessError:
        raise
    except Exception:
        cases.append({'op': 'build', 'geo': 'r3x3+refined'})
    try:
        with quiet():
            cases.extend(chain_cases(tier))
    except core.HarnessError:
        raise
    except Exception:
        cases.append({'op': 'build', 'geo': 'mixed6+decomposed'})
    if tier == 'quick':
        family(refine_cases, 'r3x3+refined', 'sample')
        family(refine_cases, 'g7', 'sample', bisects=[False, True])
        family(refine_cases, 'mixed6+decomposed', 'families')
    else:
        family(refine_cases, 'r4x3', 'all', edge_options=(False, True, 'all'))
        family(refine_cases, 'mixed6+decomposed', 'all', edge_options=(False, True, 'all'))
        family(refine_cases, 'r3x3+refined', 'families')
        family(refine_cases, 'r4x3+refined', 'families')
        family(refine_cases, 't8+refined', 'families')
        family(refine_cases, 'g7', 'families')
        family(refine_cases, 'g7+refined', 'sample', bisects=[False, True])
        family(split_cases, 'r4x3')
        family(split_cases, 'g7')
    return cases


# ----------------------------------------------------------------------------------- chains on ONE object

def in_polygon_columns(geo, pg, tol):
    m, byid = mesh_of(geo)
    ids = set(m.columns_within(pg, tol))
    return [c for c in canon_cols(geo) if id(c) in ids]


def conforming(geo):
    """Reference adjacency == the connection list (precondition after a step that is not one of the
    operations of this property)."""
    m, byid = mesh_of(geo)
    adj = set(m.adjacent_pairs())
    conn = set(frozenset((id(con.column[0]), id(con.column[1]))) for con in geo.connectionlist)
    return adj == conn and len(conn) == len(geo.connectionlist) and not m.overfull_edges()


JUDGE_PREVIOUS_MAX = 40000      # (columns before the step) x (columns after it)


def step_name(st):
    if st['do'] == 'refine':
        return 'refine(%s,%s)' % (st['who'] if isinstance(st['who'], str) else 'region', st['bisect'])
    if st['do'] == 'decompose':
        return 'decompose'
    return st['do']


def run_chain(case, results):
    """A sequence of operations on ONE geometry object (so whatever one step leaves behind in the object is
    there for the next), the property judged after every step of it that is an operation of the property:
    against the columns before that step and against the original columns.  Steps that are not operations of the
    property (reduce, delete a column and some connections and let check(fix) repair them) are only histories:
    after them the geometry must be conforming by the reference (else the chain stops, outcome recorded) and the
    snapshots are taken afresh.  case['splits'] == 'every': after the chain, split_column of every quadrilateral
    at every one of its nodes, each on a deep copy of the chain's result, judged against that result;
    [column, node]: that one only (replay).
    Appends (case, violations, nontrivial, outcome, stats) to results."""
    stats = {'lattice': 0, 'on_side': 0, 'changed': 0}
    viol = []
    target = None
    if 'base' in case:
        geo, cname = geo_polygon(case['base'], case['mids'], case['rot'])
        tcol = geo.column[cname]
    else:
        geo = copy.deepcopy(base(case['geo']))
        tcol = canon_cols(geo)[case['target']] if case.get('target') is not None else None
    orig = Snap(geo)
    tol = max(1e-9 * max(1.0, orig.size), orig.eps)
    tpoly = None
    if tcol is not None:
        m0, _ = mesh_of(geo)
        tpoly = m0.polygon(id(tcol))
    prev = orig            # snapshot before the current step
    prevprev = None        # snapshot before the previous step
    done = []
    outcome = 'chain:completed'
    changed_any = False

    def add(site, found, klass):
        for clause, text in found:
            viol.append(('%s|%s|%s|%s' % (ID, site, clause, klass), 'after %s: %s' % (klass, text)))

    for k, st in enumerate(case['steps']):
        done.append(step_name(st))
        klass = 'chain=' + '>'.join(done)
        do = st['do']
        site = {'refine': 'refine', 'decompose': 'decompose_columns'}.get(do)
        try:
            with quiet(), core.timelimit(300):
                if do in ('refine', 'decompose'):
                    who = st['who']
                    if who == 'all':
                        targets = None
                    elif who == 'inside' or (who == 'created' and k == 0):
                        targets = in_polygon_columns(geo, tpoly, tol)
                    elif who == 'created':
                        targets = new_columns(prevprev, geo)
                    elif who == 'polygons':
                        targets = [c for c in canon_cols(geo) if c.num_nodes > 4]
                    else:
                        cc = canon_cols(geo)
                        targets = [cc[i] for i in who]
                    if targets is not None and not targets:
                        outcome = 'chain:no-targets'
                        break
                    if do == 'refine':
                        cols2, nbr2 = adjacency(geo)
                        idx2 = dict((id(c), i) for i, c in enumerate(cols2))
                        S2 = list(range(len(cols2))) if targets is None else [idx2[id(c)] for c in targets]
                        if not refinable(geo, cols2, nbr2, S2):
                            outcome = 'chain:not-refinable'
                            break
                        if targets is None:
                            geo.refine(bisect=st['bisect'])
                        else:
                            geo.refine([c.name for c in targets], bisect=st['bisect'])
                    else:
                        geo.decompose_columns([c.name for c in targets])
                elif do == 'reduce':
                    cc = canon_cols(geo)
                    keep = [c.name for i, c in enumerate(cc) if i not in st['drop']]
                    geo.reduce(keep)
                elif do == 'unlink+fix':
                    cc = canon_cols(geo)
                    x, y = cc[st['column']], cc[st['strip']]
                    geo.delete_column(x.name)
                    for con in [con for con in geo.connectionlist if y in con.column]:
                        geo.delete_connection(tuple(c.name for c in con.column))
                    geo.check(fix=True, silent=True)
                    geo.setup_block_name_index()
                    geo.setup_block_connection_name_index()
                else:
                    raise core.HarnessError('unknown step %r' % (st,))
        except core.CaseTimeout:
            if site:
                viol.append(('%s|%s|timeout|%s' % (ID, site, klass), 'did not return within 300 s'))
            outcome = 'chain:timeout'
            break
        except core.HarnessError:
            raise
        except Exception as e:
            if site:
                viol.append(('%s|%s|raises-%s|%s' % (ID, site, type(e).__name__, klass),
                             '%s raised %s: %s' % (site, type(e).__name__, str(e)[:200])))
            outcome = 'chain:raised' if site else 'chain:history-raised'
            break
        if site:
            s1 = {}
            with quiet():
                found = []
                if len(prev.cols) * len(geo.columnlist) <= JUDGE_PREVIOUS_MAX or prev is orig:
                    found = judge(prev, geo, connections=True, stats=s1)
                    for kk in ('lattice', 'on_side', 'changed'):
                        stats[kk] += s1.get(kk, 0)
                    changed_any = changed_any or s1.get('changed', 0) > 0
                if prev is not orig:
                    s2 = {}
                    seen = set(c for c, t in found)
                    found += [(c, 'against the original columns: ' + t)
                              for c, t in judge(orig, geo, connections=True, stats=s2) if c not in seen]
                    for kk in ('lattice', 'on_side'):
                        stats[kk] += s2.get(kk, 0)
            add(site, found, klass)
            if found:
                outcome = 'chain:violated'
                break
            prevprev, prev = prev, Snap(geo)
        else:
            with quiet():
                ok = conforming(geo)
            if not ok or not geo.columnlist:
                outcome = 'chain:history-not-conforming'
                break
            orig = prev = Snap(geo)
            prevprev = None
    stats['columns_after'] = len(geo.columnlist)
    results.append((case, viol, changed_any, outcome, stats))
    if outcome != 'chain:completed' or not case.get('splits'):
        return
    # split_column of every quadrilateral at every node, each on a deep copy
    cols = canon_cols(geo)
    nodes = canon_nodes(geo)
    nidx = dict((id(n), i) for i, n in enumerate(nodes))
    pairs = [(i, nidx[id(n)]) for i, c in enumerate(cols) if len(c.node) == 4 for n in c.node]
    if case['splits'] != 'every':
        pairs = [tuple(case['splits'])]
    klass = 'chain=' + '>'.join(done + ['split']) + ',quad'
    for ci, ni in pairs:
        sub = dict(case, splits=[ci, ni])
        st2 = {}
        try:
            with quiet(), core.timelimit(120):
                g2 = copy.deepcopy(geo)
                ok = g2.split_column(canon_cols(g2)[ci].name, canon_nodes(g2)[ni].name)
        except core.CaseTimeout:
            results.append((sub, [('%s|split_column|timeout|%s' % (ID, klass), 'did not return within 120 s')],
                            True, 'chain-split:timeout', st2))
            continue
        except core.HarnessError:
            raise
        except Exception as e:
            results.append((sub, [('%s|split_column|raises-%s|%s' % (ID, type(e).__name__, klass),
                                   'split_column raised %s: %s' % (type(e).__name__, str(e)[:200]))],
                            True, 'chain-split:raised', st2))
            continue
        if ok is not True:
            results.append((sub, [('%s|split_column|returns-%r|%s' % (ID, ok, klass),
                                   'split_column of a quadrilateral at one of its nodes returned %r' % (ok,))],
                            True, 'chain-split:refused', st2))
            continue
        with quiet():
            found = judge(prev, g2, connections=True, stats=st2)
        v2 = [('%s|split_column|%s|%s' % (ID, clause, klass), 'after %s: %s' % (klass, text)) for clause, text in found]
        results.append((sub, v2, st2.get('changed', 0) > 0, 'chain-split:%s' % ('changed' if st2.get('changed') else 'unchanged'), st2))


def chain_cases(tier):
    quick = tier == 'quick'
    cases = []
    F, T = False, True

    def rf(who, b):
        return {'do': 'refine', 'who': who, 'bisect': b}
    seqs3 = list(itertools.product((F, T), repeat=3))
    # (a) three refinements in a row of the whole geometry
    for g, seqs in (('r3x2', seqs3), ('r3x3', [(F, F, F)]), ('t8', [(F, F, F)] if quick else seqs3),
                    ('mixed6+decomposed', [(F, F, F)])):
        for bs in seqs:
            cases.append({'op': 'chain', 'geo': g, 'steps': [rf('all', b) for b in bs]})
    # (b) nested local refinement, three deep: one column, then everything inside it, then again; and: one
    #     column, then everything the step before created (with the transition columns round it), then again
    for g, seqs in (('r3x3', [(F, F, F), (T, T, T), (F, T, F), (T, F, T)] if quick else seqs3),
                    ('t8', [(F, F, F), (T, T, T)] if quick else seqs3),
                    ('mixed6+decomposed', [(F, F, F)] if quick else seqs3), ('r3x2', [(F, F, F), ('x', 'y', 'x')])):
        try:
            geo = base(g)
        except core.HarnessError:
            raise
        except Exception:
            cases.append({'op': 'build', 'geo': g})
            continue
        cols, nbr = adjacency(geo)
        for i in range(len(cols)):
            if not refinable(geo, cols, nbr, [i]):
                continue
            for bs in seqs:
                cases.append({'op': 'chain', 'geo': g, 'target': i, 'steps': [rf('inside', b) for b in bs]})
            for bs in ([(F, F, F)] if quick else [(F, F, F), (T, T, T)]):
                cases.append({'op': 'chain', 'geo': g, 'target': i, 'steps': [rf('created', b) for b in bs]})
    # (c) decompose_columns of a straight-node polygon, then two refinements of what it was cut into
    for bname, E, r in polygon_cases():
        if (r != 0 and (quick or r != 1)) or (quick and sum(E) > 2):
            continue
        cases.append({'op': 'chain', 'base': bname, 'mids': E, 'rot': r,
                      'steps': [{'do': 'decompose', 'who': 'inside'}, rf('inside', F), rf('inside', F)]})
    # (d) histories followed by split_column of every quadrilateral at every node
    for g in (('r3x3', 'mixed6') if quick else ('r3x3', 'mixed6', 'r4x3')):
        geo = base(g)
        cols, nbr = adjacency(geo)
        n = len(cols)
        regs = regions_for(geo, 'families')
        small = [S for S in regs if len(S) <= 2]
        for S in regs:
            if not refinable(geo, cols, nbr, S):
                continue
            for b in ((BISECT if (len(S) == 1 or not quick) else (F, 'y')) if S in small else (F,)):
                cases.append({'op': 'chain', 'geo': g, 'steps': [rf(S, b)], 'splits': 'every'})
        if any(c.num_nodes > 4 for c in cols):
            cases.append({'op': 'chain', 'geo': g, 'steps': [{'do': 'decompose', 'who': 'polygons'}], 'splits': 'every'})
            for i, c in enumerate(cols):
                if c.num_nodes > 4:
                    cases.append({'op': 'chain', 'geo': g, 'steps': [{'do': 'decompose', 'who': [i]}], 'splits': 'every'})
        # reduce (drop one column), then refine one of the others, then the splits
        for i in range(n):
            cases.append({'op': 'chain', 'geo': g, 'steps': [{'do': 'reduce', 'drop': [i]}], 'splits': 'every'})
            for j in (range(n - 1) if (not quick or g == 'r3x3') else ()):
                cases.append({'op': 'chain', 'geo': g, 'steps': [{'do': 'reduce', 'drop': [i]}, rf([j], F)],
                              'splits': 'every'})
        # delete a column, delete the connections of one of its neighbours, check(fix=True)
        for i in range(n):
            for j in sorted(nbr[i]):
                cases.append({'op': 'chain', 'geo': g, 'steps': [{'do': 'unlink+fix', 'column': i, 'strip': j}],
                              'splits': 'every'})
                if not quick and g == 'r3x3':
                    cases.append({'op': 'chain', 'geo': g, 'steps': [{'do': 'unlink+fix', 'column': i, 'strip': j},
                                                                     rf('all', F)], 'splits': 'every'})
    # two refinements, then the splits
    for i in ((0, 1, 4) if quick else range(9)):
        cases.append({'op': 'chain', 'geo': 'r3x3', 'target': i, 'steps': [rf('created', F), rf('created', F)],
                      'splits': 'every'})
    # decomposed polygon, then the splits (ring of neighbours and the pieces)
    for bname, E, r in polygon_cases():
        if (r != 0 and (quick or r != 1)) or (quick and sum(E) > 2):
            continue
        cases.append({'op': 'chain', 'base': bname, 'mids': E, 'rot': r,
                      'steps': [{'do': 'decompose', 'who': 'inside'}], 'splits': 'every'})
    return cases


_cases = {}


def case_cost(c):
    g = c.get('geo', '')
    if c['op'] == 'chain':
        if c.get('splits'):
            return 60 if len(c['steps']) > 1 and c['steps'][-1].get('who') in ('all', 'created') else 25
        return 120 if c['steps'][0].get('who') == 'all' else 25
    if g.startswith('g2'):
        return 2000 if c['op'] == 'refine_all' else 100
    if g.startswith('g7+'):
        return 60
    if g.startswith('g7'):
        return 15
    if g.endswith('+refined'):
        return 5
    return 1


def units(tier):
    cases = all_cases(tier)
    _cases[tier] = cases            # inherited by the forked workers
    # contiguous blocks of roughly equal estimated cost; a unit is (first index, last index)
    total = sum(case_cost(c) for c in cases)
    nunits = 64 if tier == 'quick' else 256
    per = max(1.0, total / float(nunits))
    us, start, acc = [], 0, 0.0
    for i, c in enumerate(cases):
        acc += case_cost(c)
        if acc >= per:
            us.append((start, i + 1))
            start, acc = i + 1, 0.0
    if start < len(cases):
        us.append((start, len(cases)))
    return us


def run_unit(unit, tier, rec):
    if tier not in _cases:
        _cases[tier] = all_cases(tier)
    cases = _cases[tier]
    lo, hi = unit
    sampled = False
    todo = []
    for case in cases[lo:hi]:
        if case['op'] == 'chain':
            run_chain(case, todo)
        else:
            todo.append((case,) + run_case(case))
    for case, viol, nontrivial, outcome, stats in todo:
        key = repr(sorted(case.items()))
        rec.case(key, nontrivial=nontrivial, outcome=outcome)
        for sig, what in viol:
            rec.violation(sig, what, case)
        rec.count('lattice_points', stats.get('lattice', 0))
        rec.count('lattice_on_side', stats.get('on_side', 0))
        rec.count('old_columns_replaced', stats.get('changed', 0))
        if case['op'] == 'chain':
            rec.count('cases:chain:' + '>'.join(st['do'] for st in case['steps']) +
                      ('>split' if isinstance(case.get('splits'), list) else '') + ':' + case.get('geo', 'polygons'), 1)
        else:
            rec.count('cases:' + case['op'] + ('>' + case['then']['op'] if case.get('then') else '') +
                      ('>' + case['then2']['op'] if case.get('then2') else '') +
                      (':' + case['geo'] if 'geo' in case else ''), 1)
        if nontrivial and not sampled and lo % 5 == 0:
            sampled = True
            rec.sample(dict(case, columns_after=stats.get('columns_after'), old_columns_replaced=stats.get('changed')))


def replay(case):
    if case['op'] == 'chain':
        res = []
        run_chain(case, res)
        return [v for r in res for v in r[1]]
    viol, nontrivial, outcome, stats = run_case(case)
    return viol


def finalize(rec, tier):
    return {'dimensions': {'region': 'crossed (all subsets) for geometries of <= 12 columns, families otherwise',
                           'bisect': 'crossed (4 modes)', 'bisect_edge_columns': 'crossed (none / all outside neighbours)',
                           'polygon shapes': 'crossed (base x mid-side subset x rotation)',
                           'layer subsets x factor': 'crossed',
                           'history on one object': 'bounded: chains of 3 operations; every quadrilateral x node split '
                                                    'after every history of the stated families'}}
