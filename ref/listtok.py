"""Independent tokenizer of TOUGH-family listing tables.

Written from what a Fortran program prints, not from the library's column inference: nothing here
remembers a column position from one row (or one result time) to the next.

Numbers.  A printed real is anchored on its decimal point:

    [-+]? digits? '.' digits*  ( [EeDd][-+ ]dd  |  [-+]ddd  |  nothing )

* the exponent has a FIXED width (letter + sign-or-blank + two digits, or - when the exponent needs three
  digits - sign + three digits with the letter dropped), so that abutting numbers
  ('0.313483-1680.220714-176', '0.122638E+07-0.577298E-09') split where Fortran's fields end;
* a number WITH an exponent was printed by E/D editing, whose mantissa has at most one digit before the
  point ('0.597704E+07', '.597704E+07', '1.5977E+07'); so of the digits that precede the point only the
  last one belongs to the number - this is what separates an index printed flush against the first value
  ('A1120   1200.600000E+07' is index 120 and 0.600000E+07);
* a number WITHOUT an exponent was printed by F editing and owns every digit before its point.

Integer columns (the row index; ECO2M's phase-index column 'I') are isolated digit runs between the
names and the first real (a field of asterisks is an index that overflowed its width).  Names are 5
characters (A3,I2 / A5), possibly with embedded blanks, and end in a digit; TOUGH+ prints one flag
character ('+', '*') directly after an element name.  Names and integers can abut ('al1010' is source
'al10', index 10): because one format prints all rows of a table, the names end in the same column on
every row of that printed table, and that column is taken by majority vote over the rows of THAT table
at THAT result time on which names and integers are separated by blanks.  Nothing is carried from one
printed table to another, and no column position is used for the values.

Structure.  Two families, recognised by their own banners:
* AUTOUGH2: every table is bracketed by three lines of a repeated letter (EEEEE/CCCCC/GGGGG: start of
  header block, end of header block, end of table); an E table opens a result set; ESHORT/CSHORT/GSHORT
  blocks are short output and belong to no full result set.
* TOUGH2, TOUGH2_MP, TOUGH3, TOUGHREACT, TOUGH+: a result set starts at 'OUTPUT DATA AFTER'; a table starts
  at a heading line whose words are ELEM*... INDEX|IND. ...; it ends at the first rule line (>= 60 times
  one non-blank character) after its first row, or at the next heading of another table / next result set.
  Repeated headings (page breaks) continue the table.
Table names: one name column -> 'primary' when the first value column is X1, otherwise 'element',
'element1', 'element2'... in order of appearance within the result set; two name columns ->
'generation' when the second is SOURCE, otherwise 'connection'.
"""
import re

from ref import fortnum

_DIG = '0123456789'


def real_tokens(line):
    """[(start, end)] of the printed reals of a line, left to right."""
    n = len(line)
    out = []
    lo = 0
    p = line.find('.')
    while p >= 0:
        if p < lo:
            p = line.find('.', p + 1)
            continue
        after = p + 1 < n and line[p + 1] in _DIG
        before = p - 1 >= lo and line[p - 1] in _DIG
        if not (after or before):
            p = line.find('.', p + 1)
            continue
        q = p + 1
        while q < n and line[q] in _DIG:
            q += 1
        end = q
        if q + 3 < n and line[q] in 'EeDd' and line[q + 1] in '+- ' \
                and line[q + 2] in _DIG and line[q + 3] in _DIG:
            end = q + 4
        elif q + 3 < n and line[q] in '+-' and line[q + 1] in _DIG and line[q + 2] in _DIG \
                and line[q + 3] in _DIG:
            end = q + 4
        s = p
        if end > q:
            if s - 1 >= lo and line[s - 1] in _DIG:
                s -= 1
        else:
            while s - 1 >= lo and line[s - 1] in _DIG:
                s -= 1
        if s - 1 >= lo and line[s - 1] in '+-':
            s -= 1
        out.append((s, end))
        lo = end
        p = line.find('.', end)
    return out


def ambiguous(line, tok):
    """True when the split between an abutting integer and an exponent-form real is not decided by the
    grammar alone: 'dd.ddddE+dd' with a non-zero digit before the point and another digit before that."""
    s, e = tok
    if s < 1 or line[s] in '+-':
        return False
    return line[s] in '123456789' and line[s - 1] in _DIG and line[s + 1] == '.' and has_exponent(line[s:e])


def has_exponent(text):
    t = text.lstrip('+-')
    return any(c in t for c in 'EeDd+-')


def fix_name(name):
    """TOUGH2 prints names as (A3,I2): a blank fourth character before a final digit, after a digit in
    the third place, stands for a zero ('BB2 1' is block 'BB201')."""
    if len(name) == 5 and name[3] == ' ' and name[2] in _DIG and name[4] in _DIG:
        return name[:3] + '0' + name[4]
    return name


class Row(object):
    """One printed row: line number, key (name or tuple of names), printed index (None when the index
    field overflowed to asterisks), further integer columns, spans of the reals."""
    __slots__ = ('lineno', 'key', 'index', 'ints', 'toks')

    def __init__(self, lineno, key, index, ints, toks):
        self.lineno, self.key, self.index, self.ints, self.toks = lineno, key, index, ints, toks


_INTCH = _DIG + '*'


def _name_end(text):
    """Column just after the last name of 'text' (names end in a digit; at most one flag character,
    as TOUGH+ prints after element names, may follow).  None when there is none."""
    t = text.rstrip()
    j = len(t)
    if j and t[j - 1] not in _DIG:
        j -= 1
    if j < 1 or t[j - 1] not in _DIG:
        return None
    return j


def candidate(line):
    """Phase 1, one line on its own: the spans of its reals when the line consists of some prefix
    followed by nothing but reals and blanks; None otherwise."""
    toks = real_tokens(line)
    if not toks:
        return None
    pos = toks[0][1]
    for s, e in toks[1:]:
        if line[pos:s].strip():
            return None
        pos = e
    if line[pos:].strip():
        return None
    return toks


def _strip_ints(prefix, nints):
    """Removes nints isolated integer (or overflow '***') fields from the right of prefix."""
    for k in range(nints):
        prefix = prefix.rstrip()
        j = len(prefix)
        while j > 0 and prefix[j - 1] in _INTCH:
            j -= 1
        if j == len(prefix) or (j > 0 and prefix[j - 1] != ' '):
            return None
        prefix = prefix[:j]
    return prefix


def _vote(votes):
    if not votes:
        return None
    count = {}
    for v in votes:
        count[v] = count.get(v, 0) + 1
    best = max(count.values())
    return min(v for v in count if count[v] == best)


def split_rows(lines, linenos, nkeys, nints):
    """Phase 2, all candidate lines of ONE printed table together.  The names of a table are printed by one
    format, so they end in the same column on every row: that column is found by a vote over the rows on
    which names and integers are separated by blanks, and then decides the rows on which they abut
    ('al1010' = source al10, index 10).  -> [Row]"""
    cands = []
    for i in linenos:
        toks = candidate(lines[i])
        if toks is not None:
            cands.append((i, toks))
    v2, v1 = [], []
    for i, toks in cands:
        prefix = _strip_ints(lines[i][:toks[0][0]], nints)
        if prefix is None:
            continue
        e2 = _name_end(prefix)
        if e2 is None or e2 < 5:
            continue
        v2.append(e2)
        if nkeys == 2:
            e1 = _name_end(prefix[:e2 - 5])
            if e1 is not None and e1 >= 5:
                v1.append(e1)
    end2 = _vote(v2)
    end1 = _vote(v1) if nkeys == 2 else None
    if end2 is None or (nkeys == 2 and (end1 is None or end1 > end2 - 5)):
        return []
    rows = []
    for i, toks in cands:
        line = lines[i]
        first = toks[0][0]
        if first < end2:
            continue
        inttext = line[end2:first]
        if inttext and inttext[0] not in ' ' + _DIG and inttext[:2] != '**':
            inttext = inttext[1:]                    # flag character after the name ('+', '*' in TOUGH+)
        parts = inttext.split()
        if len(parts) != nints:
            continue
        ints = []
        ok = True
        for p in parts:
            if p.isdigit():
                ints.append(int(p))
            elif p == '*' * len(p):
                ints.append(None)
            else:
                ok = False
        if not ok:
            continue
        name2 = line[end2 - 5:end2]
        if nkeys == 2:
            name1 = line[end1 - 5:end1]
            between = line[end1:end2 - 5]
            if between.strip() and not (len(between.strip()) == 1 and between[0] != ' '):
                continue
            if len(line[:end1 - 5].strip()) > 1:
                continue
            key = (fix_name(name1), fix_name(name2))
        else:
            if len(line[:end2 - 5].strip()) > 1:     # at most a carriage-control character
                continue
            key = fix_name(name2)
        if not name2.strip() or name2[-1] not in _DIG:
            continue
        rows.append(Row(i, key, ints[0], ints[1:], toks))
    return rows


class Table(object):
    def __init__(self, name, nkeys, nints, header_lineno, header_words):
        self.name, self.nkeys, self.nints = name, nkeys, nints
        self.header_lineno = header_lineno
        self.header_words = header_words
        self.linenos = []         # lines between heading and end of table (candidates for rows)
        self.has_rows = False
        self.rows = []


class ResultSet(object):
    def __init__(self, lineno):
        self.lineno = lineno
        self.tables = []          # in file order

    def table(self, name):
        for t in self.tables:
            if t.name == name:
                return t
        return None


def heading(line):
    """(nkeys, nints, words) when the line is a table heading."""
    w = line.split()
    if len(w) < 3 or not w[0].upper().startswith('ELEM'):
        return None
    for ix in ('INDEX', 'IND.'):
        if ix in w[:4]:
            nk = w.index(ix)
            break
    else:
        return None
    if nk < 1 or nk > 2:
        return None
    rest = w[nk + 1:]
    nints = 1 + (1 if rest and rest[0] == 'I' else 0)
    return nk, nints, w


def table_kind(nk, words):
    if nk == 1:
        return 'primary' if len(words) > 2 and words[2] == 'X1' else 'element'
    return 'generation' if words[1].upper() == 'SOURCE' else 'connection'


def is_rule(line):
    t = line.strip()
    return len(t) >= 60 and t[0] not in ' ' and not t[0].isalnum() and t == t[0] * len(t)


_OUTPUT_AFTER = re.compile(r'output data after', re.I)
_AUT_KEY = {'EEEEE': 'element', 'CCCCC': 'connection', 'GGGGG': 'generation'}


def family(lines):
    for l in lines:
        if l[1:6] in _AUT_KEY and l[1:7] not in ('ESHORT', 'CSHORT', 'GSHORT'):
            return 'AUTOUGH2'
        if _OUTPUT_AFTER.search(l):
            return 'TOUGH2'
    return None


def scan(lines):
    """lines: the file's lines without their terminators.  -> [ResultSet]."""
    fam = family(lines)
    if fam == 'AUTOUGH2':
        return _scan_autough2(lines)
    if fam == 'TOUGH2':
        return _scan_tough2(lines)
    return []


def _rows_into(table, lines, a, b):
    table.linenos.extend(i for i in range(a, b) if lines[i].strip())


def _finish(sets, lines):
    for rs in sets:
        for t in rs.tables:
            t.rows = split_rows(lines, t.linenos, t.nkeys, t.nints)
    return sets


def _scan_autough2(lines):
    marks = [(i, l[1:6]) for i, l in enumerate(lines) if l[1:6] in _AUT_KEY]
    sets = []
    k = 0
    while k + 2 < len(marks):
        (a, ka), (b, kb), (c, kc) = marks[k], marks[k + 1], marks[k + 2]
        if not (ka == kb == kc):
            k += 1
            continue
        k += 3
        if ka == 'EEEEE':
            sets.append(ResultSet(a))
        if not sets:
            continue
        hl = None
        for i in range(b + 1, c):
            h = heading(lines[i])
            if h:
                hl = (i, h)
                break
        if hl is None:
            continue
        i, (nk, nints, words) = hl
        t = Table(_AUT_KEY[ka], nk, nints, i, words)
        _rows_into(t, lines, i + 1, c)
        sets[-1].tables.append(t)
    return _finish(sets, lines)


def _scan_tough2(lines):
    sets = []
    cur = None          # open table
    nelem = 0
    for i, l in enumerate(lines):
        if _OUTPUT_AFTER.search(l):
            sets.append(ResultSet(i))
            cur = None
            nelem = 0
            continue
        if not sets:
            continue
        h = heading(l)
        if h:
            nk, nints, words = h
            kind = table_kind(nk, words)
            if cur is not None and cur.kind == kind:
                continue          # page-break heading of the open table
            if kind == 'element':
                name = 'element' if nelem == 0 else 'element%d' % nelem
                nelem += 1
            else:
                name = kind
            cur = Table(name, nk, nints, i, words)
            cur.kind = kind
            sets[-1].tables.append(cur)
            continue
        if cur is None:
            continue
        if is_rule(l):
            if cur.has_rows:
                cur = None
            continue
        if not l.strip():
            continue
        cur.linenos.append(i)
        if not cur.has_rows and candidate(l) is not None:
            cur.has_rows = True
    return _finish(sets, lines)


def token_value(text):
    """Value of a printed real by the reference grammar; None when it is not a number."""
    pr = fortnum.parse_real(text)
    if pr is None or pr[0] == 'blank':
        return None
    return pr[0]


def read_lines(path):
    with open(path, 'rb') as f:
        data = f.read()
    return data.decode('latin-1').split('\n')


def write_lines(path, lines):
    with open(path, 'wb') as f:
        f.write('\n'.join(lines).encode('latin-1'))
