"""Reference model of listing navigation: which result set a navigation action lands on.

Two parts, both written from the file formats and the documented meaning of the actions, not from the
library's control flow:

* scan(data)  - an independent line scan of a listing file for its result sets: where each one starts
  (the place a copy of the file is cut to make a listing with fewer result times), whether it is a full
  or an AUTOUGH2 'short' set, and the time and time step number printed in its header.
* NavModel    - index arithmetic for first/last/next/prev/index=/time=/step= on N full result sets.
  Every answer is a *set* of acceptable indices: exact ties (two result sets equally near, or printed
  with the same time) and ties within the resolution of a correctly rounded double subtraction are
  all acceptable, because the documentation only says 'nearest'.
"""
import re
from fractions import Fraction

from . import fortnum

U = Fraction(1, 2 ** 53)           # unit roundoff of a double


class ScanError(Exception):
    pass


class ResultSet(object):
    __slots__ = ('start', 'kind', 'time', 'step', 'line')

    def __init__(self, start, kind, time, step, line):
        self.start = start      # byte offset of the first line of the result-set header
        self.kind = kind        # 'full' | 'short'
        self.time = time        # float
        self.step = step        # int
        self.line = line        # 0-based line number of the header line

    def __repr__(self):
        return 'ResultSet(%d,%s,%r,%r)' % (self.start, self.kind, self.time, self.step)


class Scan(object):
    def __init__(self, family, sets, nlines, size):
        self.family = family    # 'AUTOUGH2' | 'TOUGH2' (TOUGH2, TOUGH2_MP, TOUGH3, TOUGHREACT, TOUGH+)
        self.sets = sets
        self.nlines = nlines
        self.size = size

    @property
    def full(self):
        return [s for s in self.sets if s.kind == 'full']

    def cut_after_full(self, k):
        """Byte length of the copy that keeps exactly the first k full result sets: everything before
        the header of the result set (of either kind) that follows the k-th full one; the whole file
        when the k-th full set is the last set."""
        seen = 0
        for j, s in enumerate(self.sets):
            if s.kind == 'full':
                seen += 1
                if seen == k:
                    return self.sets[j + 1].start if j + 1 < len(self.sets) else self.size
        raise ScanError('file has fewer than %d full result sets' % k)


_KW = re.compile(r'^.(EEEEE|CCCCC|GGGGG|ESHORT|CSHORT|GSHORT)')
_AUT_HEAD = re.compile(r'OUTPUT AFTER\s*(\S+)\s+TIME STEPS\s+(\S+)\s+SECONDS')


def _lines(data):
    """[(offset, text)] with text decoded latin-1 and stripped of its line terminator."""
    out, pos = [], 0
    for raw in data.splitlines(True):
        out.append((pos, raw.decode('latin-1').rstrip('\r\n')))
        pos += len(raw)
    return out


def _real(text):
    r = fortnum.parse_real(text)
    if r is None or r[0] == 'blank':
        raise ScanError('not a number in a result-set header: %r' % text)
    return r[0]


def scan(data):
    """Scan the bytes of a listing file.  Returns a Scan."""
    lines = _lines(data)
    n = len(lines)
    tough2 = [i for i, (_, t) in enumerate(lines) if t.lstrip().lower().startswith('output data after')]
    if tough2:
        sets = []
        for i in tough2:
            j = i + 1
            while j < n and 'total time' not in lines[j][1].lower():
                j += 1
            if j + 1 >= n:
                break                      # header cut off: not a complete result set
            toks = lines[j + 1][1].split()
            if len(toks) < 2:
                raise ScanError('no time/step under TOTAL TIME at line %d' % (j + 2))
            step = fortnum.parse_int(toks[1])
            if not isinstance(step, int):
                raise ScanError('time step number %r at line %d' % (toks[1], j + 2))
            sets.append(ResultSet(lines[i][0], 'full', _real(toks[0]), step, i))
        return Scan('TOUGH2', sets, n, len(data))
    # AUTOUGH2: every table is  <keyword line> title / OUTPUT AFTER .. / THE TIME IS .. <keyword line> body
    # <keyword line>.  A table *opens* at a keyword line that is followed by the OUTPUT AFTER header.
    sets = []
    cur = None          # (kind, step, time, set of table types already seen in the current set)
    for i, (off, t) in enumerate(lines):
        m = _KW.match(t)
        if not m:
            continue
        head = None
        for j in range(i + 1, min(i + 4, n)):
            h = _AUT_HEAD.search(lines[j][1])
            if h:
                head = h
                break
            if _KW.match(lines[j][1]):
                break
        if head is None:
            continue
        kw = m.group(1)
        kind = 'short' if kw.endswith('SHORT') else 'full'
        try:
            step = int(head.group(1))
        except ValueError:
            step = -1                      # overflowed field (asterisks)
        time = _real(head.group(2))
        if kind == 'full':
            new = kw == 'EEEEE'
        else:
            new = not (cur is not None and cur[0] == 'short' and kw not in cur[3]
                       and cur[1] == step and cur[2] == time)
        if new:
            sets.append(ResultSet(off, kind, time, step, i))
            cur = (kind, step, time, set([kw]))
        elif cur is not None:
            cur[3].add(kw)
    if not sets:
        raise ScanError('no result sets recognised')
    return Scan('AUTOUGH2', sets, n, len(data))


def _frac(x):
    return Fraction(x)


class NavModel(object):
    """N full result sets with the given times and time step numbers.  Every method returns the set of
    acceptable resulting indices (and, for next/prev, the 'moved' flag)."""

    def __init__(self, times, steps):
        if len(times) != len(steps) or not times:
            raise ValueError('need at least one result set')
        self.times = [float(t) for t in times]
        self.steps = list(steps)
        self.n = len(times)

    def first(self, i=None):
        return {0}

    def last(self, i=None):
        return {self.n - 1}

    def next(self, i):
        moved = i < self.n - 1
        return ({i + 1} if moved else {i}), moved

    def prev(self, i):
        moved = i > 0
        return ({i - 1} if moved else {i}), moved

    def valid_index_arguments(self):
        """The arguments index= is defined for: Python sequence indices of a list of n result sets."""
        return list(range(-self.n, self.n))

    def set_index(self, j):
        if not -self.n <= j < self.n:
            raise IndexError(j)
        return {j % self.n}

    @staticmethod
    def _nearest(values, x):
        """Indices whose distance to x is minimal, or not distinguishable from minimal by a correctly
        rounded double subtraction: d_k <= d_min (1+u)/(1-u) (< d_min (1 + 4u))."""
        fx = _frac(x)
        d = [abs(_frac(v) - fx) for v in values]
        dmin = min(d)
        bound = dmin * (1 + 4 * U)
        return set(k for k, dk in enumerate(d) if dk <= bound)

    def set_time(self, t):
        return self._nearest(self.times, t)

    def set_step(self, s):
        return self._nearest(self.steps, s)

    # ---- finite argument alphabets for time= / step=  (every exact value, every midpoint of
    # consecutive distinct values and its two floating-point neighbours, below the first, above the last)
    @staticmethod
    def _alphabet(values, as_float):
        import math
        vals = []
        seen = set()

        def add(v):
            key = (type(v).__name__, repr(v))
            if key not in seen:
                seen.add(key)
                vals.append(v)
        for v in values:
            add(v)
        for a, b in zip(values[:-1], values[1:]):
            if a == b:
                continue
            m = (float(a) + float(b)) / 2.0
            if math.isinf(m) or m != m:
                continue
            add(math.nextafter(m, -math.inf))
            add(m)
            add(math.nextafter(m, math.inf))
        lo, hi = min(values), max(values)
        span = (float(hi) - float(lo)) or max(abs(float(lo)), 1.0)
        if as_float:
            add(float(lo) - span)
            add(float(hi) + span)
        else:
            add(int(lo) - max(1, int(span)))
            add(int(hi) + max(1, int(span)))
        return vals

    def time_arguments(self):
        return self._alphabet(self.times, True)

    def step_arguments(self):
        return self._alphabet(self.steps, False)
