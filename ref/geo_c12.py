"""Exact planar reference geometry for C12 (point and line location).

Everything here is computed from node coordinates only.  A double is a dyadic rational, so all
coordinates of one geometry (nodes, lattice points, line end points) are scaled by one common power
of two to Python integers; orientation tests, crossing parameters and distances are then exact
(integer / Fraction arithmetic) - no epsilon takes part in a containment or crossing decision.
Tolerances appear only where the property statement has one: 'within tolerance of an edge / node'
(points and lines excluded from the lattice) and the corner-clip threshold of a track.

Polygons are simple, any orientation, possibly non-convex.

    frame = Frame(all floats that will ever be used)
    mesh  = Mesh(frame, [(label, [(x, y), ...]), ...])
    mesh.locate((x, y))            -> (indices of the columns strictly containing the point,
                                       smallest ratio distance-to-edge / edge tolerance over all edges)
    mesh.clip(i, A, B)             -> maximal parameter intervals [(t0, t1), ...] (Fractions) of the
                                       segment A->B inside polygon i
    mesh.track(A, B)               -> [(i, t0, t1)] for all columns, sorted along the line
    mesh.node_clearance(A, B)      -> smallest ratio distance(node, segment) / node tolerance
"""
from fractions import Fraction
import math


def _bits(f):
    n, d = float(f).as_integer_ratio()
    return d.bit_length() - 1


class Frame(object):
    """Common power-of-two scale turning every double of a geometry into an integer, exactly."""

    def __init__(self, floats):
        self.K = max([_bits(f) for f in floats] + [0])

    def grow(self, floats):
        k = max([_bits(f) for f in floats] + [0])
        if k > self.K:
            raise ValueError('Frame fixed at 2^-%d, value needs 2^-%d' % (self.K, k))

    def I(self, f):
        n, d = float(f).as_integer_ratio()
        k = d.bit_length() - 1
        if k > self.K:
            raise ValueError('value %r not representable at scale 2^-%d' % (f, self.K))
        return n << (self.K - k)

    def P(self, p):
        return (self.I(p[0]), self.I(p[1]))

    def tol(self, t):
        """tolerance (float length) -> integer length at the frame's scale, rounded up"""
        return int(math.ceil(Fraction(float(t)) * (1 << self.K)))


def orient(a, b, c):
    """> 0 when a, b, c turn anticlockwise; exact for integer points"""
    return (b[0] - a[0]) * (c[1] - a[1]) - (b[1] - a[1]) * (c[0] - a[0])


def winding(p, poly):
    """Winding number of the integer polygon about integer point p; None when p lies on the boundary."""
    wn = 0
    px, py = p
    n = len(poly)
    for i in range(n):
        a = poly[i]
        b = poly[(i + 1) % n]
        o = orient(a, b, p)
        if o == 0:
            if min(a[0], b[0]) <= px <= max(a[0], b[0]) and min(a[1], b[1]) <= py <= max(a[1], b[1]):
                return None
        if a[1] <= py:
            if b[1] > py and o > 0:
                wn += 1
        else:
            if b[1] <= py and o < 0:
                wn -= 1
    return wn


def seg_dist2_cmp(p, a, b, tol_i):
    """Compare squared distance from integer point p to segment ab with tol_i**2 (all integers).
    Returns (within, ratio2) where ratio2 = dist^2 / tol^2 as a Fraction."""
    dx, dy = b[0] - a[0], b[1] - a[1]
    wx, wy = p[0] - a[0], p[1] - a[1]
    L2 = dx * dx + dy * dy
    t = wx * dx + wy * dy
    if L2 == 0 or t <= 0:
        d2 = Fraction(wx * wx + wy * wy)
    elif t >= L2:
        ex, ey = p[0] - b[0], p[1] - b[1]
        d2 = Fraction(ex * ex + ey * ey)
    else:
        c = dx * wy - dy * wx
        d2 = Fraction(c * c, L2)
    r2 = d2 / (tol_i * tol_i)
    return r2 <= 1, r2


class Mesh(object):
    def __init__(self, frame, polys, edge_tol_rel=1e-6):
        """polys: [(label, [(x, y) floats ...])].  Edge/node tolerance = edge_tol_rel x the longest side
        of the column(s) the edge/node belongs to (the larger, where shared)."""
        self.frame = frame
        self.labels = [l for l, _ in polys]
        self.fpoly = [[(float(x), float(y)) for x, y in pts] for _, pts in polys]
        self.ipoly = [[frame.P(p) for p in pts] for pts in self.fpoly]
        self.n = len(polys)
        self.bbox = []
        self.longest = []
        for pts in self.fpoly:
            xs = [p[0] for p in pts]
            ys = [p[1] for p in pts]
            self.bbox.append((min(xs), min(ys), max(xs), max(ys)))
            m = len(pts)
            self.longest.append(max(math.hypot(pts[(i + 1) % m][0] - pts[i][0], pts[(i + 1) % m][1] - pts[i][1])
                                    for i in range(m)))
        self.edge_tol_rel = edge_tol_rel
        # node tolerance: by coordinates (shared nodes have identical coordinates)
        nt = {}
        for ci, pts in enumerate(self.fpoly):
            for p in pts:
                nt[p] = max(nt.get(p, 0.0), self.longest[ci] * edge_tol_rel)
        self.nodes = sorted(nt)
        self.inodes = [frame.P(p) for p in self.nodes]
        self.node_tol = [nt[p] for p in self.nodes]
        self.node_tol_i = [frame.tol(t) for t in self.node_tol]
        self.col_tol = [l * edge_tol_rel for l in self.longest]
        self.col_tol_i = [frame.tol(t) for t in self.col_tol]
        self.maxtol = max(self.col_tol) if self.col_tol else 0.0
        self.xmin = min(b[0] for b in self.bbox)
        self.ymin = min(b[1] for b in self.bbox)
        self.xmax = max(b[2] for b in self.bbox)
        self.ymax = max(b[3] for b in self.bbox)

    # ---- points
    def locate(self, p):
        """(list of column indices strictly containing p, min over edges of distance/tolerance).
        The ratio is exact up to the final float conversion; < 1 means 'within tolerance of an edge'."""
        x, y = float(p[0]), float(p[1])
        ip = self.frame.P((x, y))
        inside = []
        r2min = None
        for ci in range(self.n):
            bx0, by0, bx1, by1 = self.bbox[ci]
            m = 4.0 * self.col_tol[ci] + 1e-300
            # exact float comparisons; the margin only widens the set examined
            if x < bx0 - m or x > bx1 + m or y < by0 - m or y > by1 + m:
                continue
            poly = self.ipoly[ci]
            w = winding(ip, poly)
            if w is None:
                r2min = Fraction(0)
            elif w != 0:
                inside.append(ci)
            ti = self.col_tol_i[ci]
            k = len(poly)
            for i in range(k):
                _, r2 = seg_dist2_cmp(ip, poly[i], poly[(i + 1) % k], ti)
                if r2min is None or r2 < r2min:
                    r2min = r2
        ratio = float('inf') if r2min is None else math.sqrt(float(min(r2min, Fraction(10) ** 12)))
        return inside, ratio

    # ---- lines
    def clip(self, ci, A, B, iA=None, iB=None):
        """Maximal intervals of t in [0,1] with A + t(B-A) inside polygon ci (closed ends), exact.
        Breakpoints: every parameter where the segment meets an edge (vertex contacts included);
        each open sub-interval is classified by the winding number of its mid point."""
        iA = iA or self.frame.P(A)
        iB = iB or self.frame.P(B)
        poly = self.ipoly[ci]
        k = len(poly)
        sides = [orient(iA, iB, v) for v in poly]
        if all(s > 0 for s in sides) or all(s < 0 for s in sides):
            return []
        dx, dy = iB[0] - iA[0], iB[1] - iA[1]
        ts = set()
        for i in range(k):
            P, Q = poly[i], poly[(i + 1) % k]
            ex, ey = Q[0] - P[0], Q[1] - P[1]
            den = dx * ey - dy * ex
            if den == 0:
                continue
            wx, wy = P[0] - iA[0], P[1] - iA[1]
            tn = wx * ey - wy * ex
            un = wx * dy - wy * dx
            if den < 0:
                den, tn, un = -den, -tn, -un
            if 0 <= un <= den and 0 < tn < den:
                ts.add(Fraction(tn, den))
        cuts = [Fraction(0)] + sorted(ts) + [Fraction(1)]
        out = []
        for a, b in zip(cuts[:-1], cuts[1:]):
            tm = (a + b) / 2
            q = tm.denominator
            M = (iA[0] * q + tm.numerator * dx, iA[1] * q + tm.numerator * dy)
            w = winding(M, [(v[0] * q, v[1] * q) for v in poly])
            if w is not None and w != 0:
                if out and out[-1][1] == a:
                    out[-1] = (out[-1][0], b)
                else:
                    out.append((a, b))
        return out

    def track(self, A, B):
        """[(column index, t0, t1)] of every maximal inside interval of every column, sorted by t0."""
        A = (float(A[0]), float(A[1]))
        B = (float(B[0]), float(B[1]))
        iA, iB = self.frame.P(A), self.frame.P(B)
        lx0, lx1 = min(A[0], B[0]), max(A[0], B[0])
        ly0, ly1 = min(A[1], B[1]), max(A[1], B[1])
        segs = []
        for ci in range(self.n):
            bx0, by0, bx1, by1 = self.bbox[ci]
            if bx1 < lx0 or bx0 > lx1 or by1 < ly0 or by0 > ly1:      # exact float comparisons
                continue
            for a, b in self.clip(ci, A, B, iA, iB):
                segs.append((ci, a, b))
        segs.sort(key=lambda s: (s[1], s[2], s[0]))
        return segs

    def node_clearance(self, A, B):
        """min over nodes of distance(node, segment AB) / node tolerance (exact comparison inside)."""
        iA, iB = self.frame.P(A), self.frame.P(B)
        best = None
        for ip, ti in zip(self.inodes, self.node_tol_i):
            _, r2 = seg_dist2_cmp(ip, iA, iB, ti)
            if best is None or r2 < best:
                best = r2
        return float('inf') if best is None else math.sqrt(float(min(best, Fraction(10) ** 12)))

    def point_at(self, A, B, t):
        """float coordinates of A + t(B-A), correctly rounded from the exact rational point"""
        A = (float(A[0]), float(A[1]))
        B = (float(B[0]), float(B[1]))
        fa = (Fraction(A[0]), Fraction(A[1]))
        fb = (Fraction(B[0]), Fraction(B[1]))
        return (float(fa[0] + t * (fb[0] - fa[0])), float(fa[1] + t * (fb[1] - fa[1])))


def shared_edge_neighbours(polys):
    """Adjacency by coordinates: columns sharing an edge (both end points identical). {i: set(j)}"""
    edges = {}
    for ci, pts in enumerate(polys):
        m = len(pts)
        for i in range(m):
            a = (float(pts[i][0]), float(pts[i][1]))
            b = (float(pts[(i + 1) % m][0]), float(pts[(i + 1) % m][1]))
            edges.setdefault(frozenset((a, b)), []).append(ci)
    nb = {i: set() for i in range(len(polys))}
    for cs in edges.values():
        for i in cs:
            for j in cs:
                if i != j:
                    nb[i].add(j)
    return nb
