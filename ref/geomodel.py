"""Exact plane geometry for the mulgrid checks (C10, C11).

Everything here is computed from node coordinates and node *identities* handed in by the caller as plain
Python values; nothing calls a mulgrid/column method.  Coordinates are converted to fractions.Fraction
(a float is a dyadic rational, so the conversion is exact) and every predicate is decided exactly:
there is no epsilon in area, orientation, containment or on-edge tests.  Tolerances appear only where a
check asks for one explicitly (near_segment_interior).

A polygon is a list of (x, y) pairs (Fractions) in the order given; an edge is an unordered pair.
A *mesh* is ({node id: (x, y)}, {column id: [node ids in order]}).
"""
from fractions import Fraction


def fr(v):
    """Exact Fraction of a float / numpy float / int / Fraction."""
    if isinstance(v, Fraction):
        return v
    if isinstance(v, int):
        return Fraction(v)
    return Fraction(float(v))


def pt(p):
    return (fr(p[0]), fr(p[1]))


def poly(points):
    return [pt(p) for p in points]


# ---------------------------------------------------------------- area, orientation

def area2(pg):
    """Twice the signed (shoelace) area: positive when counter-clockwise."""
    s = Fraction(0)
    n = len(pg)
    for i in range(n):
        x1, y1 = pg[i]
        x2, y2 = pg[(i + 1) % n]
        s += x1 * y2 - x2 * y1
    return s


def area(pg):
    """Signed area."""
    return area2(pg) / 2


def orientation(pg):
    """+1 counter-clockwise, -1 clockwise, 0 degenerate (zero area or fewer than 3 vertices)."""
    if len(pg) < 3:
        return 0
    a = area2(pg)
    return (a > 0) - (a < 0)


def cross(o, a, b):
    return (a[0] - o[0]) * (b[1] - o[1]) - (a[1] - o[1]) * (b[0] - o[0])


def straight_vertices(pg):
    """Indices of vertices lying exactly on the line through their two neighbours."""
    n = len(pg)
    return [i for i in range(n) if cross(pg[i - 1], pg[i], pg[(i + 1) % n]) == 0]


# ---------------------------------------------------------------- points and segments

def on_segment(p, a, b, strict=False):
    """p on the closed segment ab (strict: in its open interior)."""
    if cross(a, b, p) != 0:
        return False
    if a == b:
        return (not strict) and p == a
    dx, dy = b[0] - a[0], b[1] - a[1]
    t = (p[0] - a[0]) * dx + (p[1] - a[1]) * dy       # = s * |ab|^2
    l2 = dx * dx + dy * dy
    if strict:
        return 0 < t < l2
    return 0 <= t <= l2


def dist2_to_segment_interior(p, a, b):
    """(squared distance from p to the line ab, parameter s of the foot of the perpendicular);
    s in (0,1) means the foot is interior to the segment.  None for a degenerate segment."""
    dx, dy = b[0] - a[0], b[1] - a[1]
    l2 = dx * dx + dy * dy
    if l2 == 0:
        return None
    s = ((p[0] - a[0]) * dx + (p[1] - a[1]) * dy) / l2
    c = cross(a, b, p)
    return c * c / l2, s


def near_segment_interior(p, a, b, tol):
    """True when p is within distance tol of the segment ab at a foot point that is farther than tol
    from both ends (so an end node of the edge, or a node coinciding with an end, does not count)."""
    r = dist2_to_segment_interior(p, a, b)
    if r is None:
        return False
    d2, s = r
    dx, dy = b[0] - a[0], b[1] - a[1]
    l2 = dx * dx + dy * dy
    tol = fr(tol)
    if d2 > tol * tol:
        return False
    # foot at least tol from each end:  s*|ab| > tol and (1-s)*|ab| > tol
    if s <= 0 or s >= 1:
        return False
    return s * s * l2 > tol * tol and (1 - s) * (1 - s) * l2 > tol * tol


def point_in_polygon(p, pg):
    """'in', 'on' or 'out' - exact.  Crossing-number with a half-open rule, after an explicit
    on-boundary test, so vertices and horizontal edges need no special casing."""
    n = len(pg)
    for i in range(n):
        if on_segment(p, pg[i], pg[(i + 1) % n]):
            return 'on'
    inside = False
    px, py = p
    for i in range(n):
        x1, y1 = pg[i]
        x2, y2 = pg[(i + 1) % n]
        if (y1 <= py < y2) or (y2 <= py < y1):
            # x of the edge at height py, compared without division by a signed quantity
            t = (py - y1) * (x2 - x1) - (px - x1) * (y2 - y1)
            if (y2 > y1 and t > 0) or (y2 < y1 and t < 0):
                inside = not inside
    return 'in' if inside else 'out'


def dist2_to_segment(p, a, b):
    """Exact squared distance from p to the closed segment ab."""
    dx, dy = b[0] - a[0], b[1] - a[1]
    l2 = dx * dx + dy * dy
    if l2 == 0:
        return (p[0] - a[0]) ** 2 + (p[1] - a[1]) ** 2
    s = ((p[0] - a[0]) * dx + (p[1] - a[1]) * dy) / l2
    if s <= 0:
        return (p[0] - a[0]) ** 2 + (p[1] - a[1]) ** 2
    if s >= 1:
        return (p[0] - b[0]) ** 2 + (p[1] - b[1]) ** 2
    c = cross(a, b, p)
    return c * c / l2


def point_in_polygon_tol(p, pg, tol):
    """'in', 'on' (within tol of the boundary, decided exactly) or 'out'."""
    t2 = fr(tol) ** 2
    n = len(pg)
    for i in range(n):
        if dist2_to_segment(p, pg[i], pg[(i + 1) % n]) <= t2:
            return 'on'
    return point_in_polygon(p, pg)


def vertex_mean(pg):
    n = len(pg)
    return (sum((p[0] for p in pg), Fraction(0)) / n, sum((p[1] for p in pg), Fraction(0)) / n)


def centroid(pg):
    """Exact area centroid of a polygon with non-zero area."""
    a2 = area2(pg)
    cx = cy = Fraction(0)
    n = len(pg)
    for i in range(n):
        x1, y1 = pg[i]
        x2, y2 = pg[(i + 1) % n]
        t = x1 * y2 - x2 * y1
        cx += (x1 + x2) * t
        cy += (y1 + y2) * t
    return (cx / (3 * a2), cy / (3 * a2))


def winding_number(p, pg):
    """Winding number of the polygon about p (p not on the boundary)."""
    wn = 0
    n = len(pg)
    for i in range(n):
        a, b = pg[i], pg[(i + 1) % n]
        if a[1] <= p[1]:
            if b[1] > p[1] and cross(a, b, p) > 0:
                wn += 1
        elif b[1] <= p[1] and cross(a, b, p) < 0:
            wn -= 1
    return wn


def segments_properly_cross(a, b, c, d):
    """Open segments ab and cd cross at a single interior point of both."""
    d1, d2 = cross(c, d, a), cross(c, d, b)
    d3, d4 = cross(a, b, c), cross(a, b, d)
    return ((d1 > 0 and d2 < 0) or (d1 < 0 and d2 > 0)) and ((d3 > 0 and d4 < 0) or (d3 < 0 and d4 > 0))


def is_simple(pg):
    """No two non-adjacent edges touch, no repeated vertex."""
    n = len(pg)
    if len(set(pg)) != n or n < 3:
        return False
    for i in range(n):
        a, b = pg[i], pg[(i + 1) % n]
        for j in range(i + 1, n):
            if j == i or (j + 1) % n == i or (i + 1) % n == j:
                continue
            c, d = pg[j], pg[(j + 1) % n]
            if segments_properly_cross(a, b, c, d):
                return False
            if on_segment(c, a, b) or on_segment(d, a, b) or on_segment(a, c, d) or on_segment(b, c, d):
                return False
    return True


def collinear_overlap(a, b, c, d):
    """Segments ab and cd lie on one line and share more than a point."""
    if cross(a, b, c) != 0 or cross(a, b, d) != 0 or a == b or c == d:
        return False
    dx, dy = b[0] - a[0], b[1] - a[1]

    def par(p):
        return (p[0] - a[0]) * dx + (p[1] - a[1]) * dy
    lo1, hi1 = 0, dx * dx + dy * dy
    t1, t2 = sorted((par(c), par(d)))
    return max(lo1, t1) < min(hi1, t2)


def interior_lattice(pg, n):
    """The points of an n x n lattice over the bounding box of pg (cell-centred, so no lattice line
    coincides with a box side) that lie strictly inside pg."""
    xs = [p[0] for p in pg]
    ys = [p[1] for p in pg]
    x0, x1, y0, y1 = min(xs), max(xs), min(ys), max(ys)
    out = []
    for i in range(n):
        # offsets (2i+1)/(2n) shifted by small distinct primes' reciprocals so that points avoid the
        # diagonals and mid-lines along which refinement places its new edges
        fx = Fraction(2 * i + 1, 2 * n) + Fraction(1, 97 * n)
        for j in range(n):
            fy = Fraction(2 * j + 1, 2 * n) + Fraction(1, 89 * n)
            p = (x0 + fx * (x1 - x0), y0 + fy * (y1 - y0))
            if point_in_polygon(p, pg) == 'in':
                out.append(p)
    return out


# ---------------------------------------------------------------- edges of a mesh

def cyc_edges(seq):
    """Consecutive (cyclic) unordered pairs of a vertex sequence."""
    n = len(seq)
    if n < 2:
        return []
    if n == 2:
        return [frozenset(seq)] if seq[0] != seq[1] else []
    return [frozenset((seq[i], seq[(i + 1) % n])) for i in range(n)]


def shared_edges_by_identity(nodes_a, nodes_b):
    """Edges (unordered pairs of node ids) that are sides of both node sequences."""
    eb = set(cyc_edges(nodes_b))
    return [e for e in cyc_edges(nodes_a) if len(e) == 2 and e in eb]


def shared_edges_by_coords(pa, pb):
    """Edges (unordered pairs of coordinate pairs) that are sides of both polygons."""
    eb = set(cyc_edges(pb))
    return [e for e in cyc_edges(pa) if len(e) == 2 and e in eb]


class Mesh(object):
    """Plan view of a geometry as plain data.

    nodes:   {node id: (x, y)}           (any hashable ids; coordinates converted exactly)
    columns: {column id: [node ids]}     in stored order
    """

    def __init__(self, nodes, columns):
        self.nodes = dict((k, pt(v)) for k, v in nodes.items())
        self.columns = dict((k, list(v)) for k, v in columns.items())
        self._edge_cols = None

    def polygon(self, c):
        return [self.nodes[n] for n in self.columns[c]]

    def area(self, c):
        return area(self.polygon(c))

    def total_area(self):
        return sum((self.area(c) for c in self.columns), Fraction(0))

    def edge_columns(self):
        """{edge (frozenset of node ids): [column ids having it as a side]}"""
        if self._edge_cols is None:
            ec = {}
            for c, seq in self.columns.items():
                for e in cyc_edges(seq):
                    if len(e) == 2:
                        ec.setdefault(e, []).append(c)
            self._edge_cols = ec
        return self._edge_cols

    def adjacent_pairs(self):
        """{frozenset((c1, c2)): [shared edges]} by vertex identity."""
        out = {}
        for e, cs in self.edge_columns().items():
            for i in range(len(cs)):
                for j in range(i + 1, len(cs)):
                    if cs[i] != cs[j]:
                        out.setdefault(frozenset((cs[i], cs[j])), []).append(e)
        return out

    def adjacent_pairs_by_coords(self):
        """{frozenset((c1, c2)): [shared edges as coordinate pairs]} - sides equal as point pairs,
        whatever the node identities."""
        ec = {}
        for c, seq in self.columns.items():
            for e in cyc_edges([self.nodes[n] for n in seq]):
                if len(e) == 2:
                    ec.setdefault(e, []).append(c)
        out = {}
        for e, cs in ec.items():
            for i in range(len(cs)):
                for j in range(i + 1, len(cs)):
                    if cs[i] != cs[j]:
                        out.setdefault(frozenset((cs[i], cs[j])), []).append(e)
        return out

    def boundary_edges(self):
        return [e for e, cs in self.edge_columns().items() if len(cs) == 1]

    def overfull_edges(self):
        """Edges that are a side of more than two columns (the plan cannot be a tiling there)."""
        return [e for e, cs in self.edge_columns().items() if len(cs) > 2]

    def orphan_nodes(self):
        used = set()
        for seq in self.columns.values():
            used.update(seq)
        return [n for n in self.nodes if n not in used]

    def coincident_nodes(self):
        """Groups of distinct node ids with identical coordinates."""
        by = {}
        for n, p in self.nodes.items():
            by.setdefault(p, []).append(n)
        return [v for v in by.values() if len(v) > 1]

    def hanging_nodes(self, tol, only_nodes=None):
        """(node, edge) pairs where a node that is not an end of the edge lies within tol of the edge's
        interior.  Only used (column-referenced) nodes and column sides are considered; only_nodes restricts
        the nodes examined (all sides are still examined)."""
        used = set()
        for seq in self.columns.values():
            used.update(seq)
        if only_nodes is not None:
            used &= set(only_nodes)
        edges = list(self.edge_columns())
        out = []
        boxes = []
        t = fr(tol)
        for e in edges:
            a, b = [self.nodes[n] for n in e]
            boxes.append((min(a[0], b[0]) - t, max(a[0], b[0]) + t, min(a[1], b[1]) - t, max(a[1], b[1]) + t, a, b))
        for n in used:
            p = self.nodes[n]
            for e, (x0, x1, y0, y1, a, b) in zip(edges, boxes):
                if n in e or not (x0 <= p[0] <= x1 and y0 <= p[1] <= y1):
                    continue
                if p == a or p == b:
                    continue        # a coincident node is reported by coincident_nodes, not here
                if near_segment_interior(p, a, b, t):
                    out.append((n, e))
        return out

    def locate(self, p, candidates=None):
        """Column ids containing p: ([strictly inside], [on the boundary])."""
        inside, on = [], []
        for c in (self.columns if candidates is None else candidates):
            r = point_in_polygon(p, self.polygon(c))
            if r == 'in':
                inside.append(c)
            elif r == 'on':
                on.append(c)
        return inside, on

    def columns_within(self, pg, tol=0):
        """Column ids all of whose vertices lie in, on or within tol of the polygon pg."""
        out = []
        xs = [p[0] for p in pg]
        ys = [p[1] for p in pg]
        t = fr(tol)
        x0, x1, y0, y1 = min(xs) - t, max(xs) + t, min(ys) - t, max(ys) + t
        for c in self.columns:
            vs = self.polygon(c)
            if any(not (x0 <= v[0] <= x1 and y0 <= v[1] <= y1) for v in vs):
                continue
            if all(point_in_polygon_tol(v, pg, t) != 'out' for v in vs):
                out.append(c)
        return out
