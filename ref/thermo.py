"""Reference side of C14 (IAPWS-97 consistency) and C15 (IFC-67 vs IAPWS-97).

Holds only things that are NOT read from the library under test:

* the stated ranges of the two formulations (from doc/source/iapws97.rst, doc/source/t2thermo.rst and the
  region definitions of IAPWS-IF97 / IFC-67),
* E3 helpers: ulp neighbours, the temperature / pressure / density lattices,
* the exponent-tracking value used for the symbolic run of IAPWS97.power_array and the reference list of the
  powers each caller reads (written from the IF97 sums, not from the code),
* 4th-order central-difference stencils for the single-potential identities,
* reference region / range predicates (answers are SETS: on a boundary curve either side is accepted),
* every calibrated tolerance, with the measurement that justifies it (TOL).

Nothing here imports PyTOUGH.  The library routines are always passed in by the caller.
"""
import math

INF = float('inf')


# ----------------------------------------------------------------------------------------------------------
# E3: floating-point neighbours
# ----------------------------------------------------------------------------------------------------------

def up(x):
    return math.nextafter(float(x), INF)


def down(x):
    return math.nextafter(float(x), -INF)


def around(x):
    """The value and its two floating-point neighbours."""
    x = float(x)
    return [down(x), x, up(x)]


# ----------------------------------------------------------------------------------------------------------
# Stated ranges
# ----------------------------------------------------------------------------------------------------------

T_MIN = 0.01            # degC, lower end of both formulations (triple point)
T_13 = 350.0            # degC, boundary region 1 | 3 (both formulations)
T_23_END = 590.0        # degC, upper end of the region 2 | 3 boundary curve (both formulations)
T_MAX = 800.0           # degC, upper end of both formulations as implemented (doc/source/iapws97.rst)
P_MAX = 100.0e6         # Pa

TC_K = 273.15
TCRIT97 = 647.096 - TC_K          # degC (373.946), IAPWS-97 critical temperature
PCRIT97 = 22.064e6                # Pa
DCRIT97 = 322.0                   # kg/m3, IAPWS-97 critical density (the viscosity correlation is reduced by it)
TCRIT67_DOC = 374.15              # degC as printed in doc/source/t2thermo.rst
TCRIT67_FLT = 647.3 - TC_K        # the same number as the formulation computes it (Tc1 - 273.15)
TCRIT67_LO = min(TCRIT67_DOC, TCRIT67_FLT)
TCRIT67_HI = max(TCRIT67_DOC, TCRIT67_FLT)
PCRIT67 = 22.12e6                 # Pa, doc/source/t2thermo.rst

# Pressures below this are outside every value clause (the ideal-gas terms 1/p**k of both formulations leave
# double precision far below it); p = 0 and its lower neighbour are still explored as a limit.
P_FLOOR = 1.0e-3
P_LATTICE_LO = 100.0              # Pa, lower end of the steam lattices (below the triple-point pressure)


# ----------------------------------------------------------------------------------------------------------
# Lattices
# ----------------------------------------------------------------------------------------------------------

def t_lattice(t_end, step, t_start=T_MIN):
    """t_start, then every multiple of 'step' above it up to and including t_end (t_end always present)."""
    out = [float(t_start)]
    k = int(math.floor(t_start / step)) + 1
    while k * step < t_end - 1e-9:
        out.append(float(k * step))
        k += 1
    if t_end > t_start:
        out.append(float(t_end))
    return out


def logspace(a, b, n):
    """n points from a to b inclusive, equally spaced in log (end points exact)."""
    if n < 2 or not (a > 0 and b > a):
        return [float(a)] if not b > a else [float(a), float(b)]
    la, lb = math.log(a), math.log(b)
    pts = [math.exp(la + (lb - la) * k / (n - 1.)) for k in range(n)]
    pts[0], pts[-1] = float(a), float(b)
    return pts


def hundredths(lo_k, hi_k):
    """k/100 for lo_k <= k <= hi_k (the nearest double to each multiple of 0.01)."""
    return [k / 100. for k in range(lo_k, hi_k + 1)]


def density_lattice(step=10.0, lo=50.0, hi=1000.0):
    n = int(round((hi - lo) / step))
    return [lo + k * step for k in range(n + 1)]


# ----------------------------------------------------------------------------------------------------------
# Clause C14(1): exponent-tracking run of power_array
# ----------------------------------------------------------------------------------------------------------

class Pow(object):
    """The symbolic value x**e.  Only the exponent is tracked; an unset array slot is the integer 0 that
    numpy.zeros(dtype=object) leaves there, and anything multiplied by an unset slot stays unset."""
    __slots__ = ('e',)

    def __init__(self, e):
        self.e = e

    def _mul(self, o):
        if isinstance(o, Pow):
            return Pow(self.e + o.e)
        if isinstance(o, (int, float)):
            if o == 0:
                return 0
            if o == 1:
                return self
        return NotImplemented

    __mul__ = _mul
    __rmul__ = _mul

    def __rtruediv__(self, o):
        if isinstance(o, (int, float)) and o == 1:
            return Pow(-self.e)
        return NotImplemented

    def __repr__(self):
        return 'x**%d' % self.e


class ObjectZeros(object):
    """Stand-in for the numpy module inside power_array during the symbolic run: zeros() gives an object
    array (so that it can hold Pow values and still supports the negative indexing the routine relies on);
    everything else is numpy's."""

    def __init__(self, real):
        self._real = real

    def zeros(self, shape, dtype=None):
        return self._real.zeros(shape, dtype=object)

    def __getattr__(self, k):
        return getattr(self._real, k)


def exponent_of_symbolic(v):
    """Exponent stored in a slot of the symbolic run; None = never computed."""
    if isinstance(v, Pow):
        return v.e
    if isinstance(v, (int, float)) and v == 1:
        return 0
    return None


def exponent_of_dyadic(v):
    """Exponent stored in a slot when power_array was run on the value 2.0 (every product of powers of two
    is exact in binary floating point, so the exponent is recovered exactly); None = never computed,
    'inexact' = not a power of two (cannot happen for a pure multiplication chain)."""
    v = float(v)
    if v == 0.0:
        return None
    m, e = math.frexp(v)
    if m != 0.5:
        return 'inexact'
    return e - 1


def chain_reads(tables):
    """Reference list of the powers each IAPWS-97 routine needs, written from the IF97 sums
        gamma_pi = sum n I x**(I-1) y**J,  gamma_tau = sum n x**I J y**(J-1)   (regions 1, 2, 3)
        gamma0_tau = sum n0 J0 tau**(J0-1)                                     (region 2 ideal part)
        phi_delta has the extra term n1/delta                                   (region 3)
        mu0 ~ sum H_i / Tbar**i, i = 0..3;  mu1 ~ sum H_ij (1/Tbar - 1)**i (rhobar - 1)**j   (viscosity)
    A power is needed only where its multiplier (n I or n J) is not zero.
    'tables' maps names to the library's exponent tables (ir1, jr1, j0r2, ir2, jr2, ir3, jr3, ivs, jvs).
    Returns [(routine, chain table name, sorted list of indices read)]."""
    def need_x(ir, jr):
        s = set()
        for i, j in zip(ir, jr):
            if i != 0:
                s.add(int(i) - 1)
            if j != 0:
                s.add(int(i))
        return s

    def need_y(ir, jr):
        s = set()
        for i, j in zip(ir, jr):
            if i != 0:
                s.add(int(j))
            if j != 0:
                s.add(int(j) - 1)
        return s

    out = []
    out.append(('cowat', 'pc1', need_x(tables['ir1'], tables['jr1'])))
    out.append(('cowat', 'tc1', need_y(tables['ir1'], tables['jr1'])))
    out.append(('supst', 'tc2', set(int(j) - 1 for j in tables['j0r2'] if j != 0)))
    out.append(('supst', 'pc2', need_x(tables['ir2'], tables['jr2'])))
    out.append(('supst', 'tsc2', need_y(tables['ir2'], tables['jr2'])))
    out.append(('super', 'dc3', need_x(tables['ir3'], tables['jr3']) | set([-1])))
    out.append(('super', 'tc3', need_y(tables['ir3'], tables['jr3'])))
    out.append(('visc', 'ticv', set([0, 1, 2, 3])))
    out.append(('visc', 'tscv', set(int(i) for i in tables['ivs'])))
    out.append(('visc', 'dscv', set(int(j) for j in tables['jvs'])))
    return [(r, c, sorted(s)) for r, c, s in out]


# ----------------------------------------------------------------------------------------------------------
# Finite differences (4th-order central stencil) and the single-potential identities
# ----------------------------------------------------------------------------------------------------------

def d4(fm2, fm1, fp1, fp2, h):
    """df/dx from f(x-2h), f(x-h), f(x+h), f(x+2h); truncation error h**4 f(5)/30."""
    return (fm2 - 8. * fm1 + 8. * fp1 - fp2) / (12. * h)


H_T = 0.25          # K, temperature step of the stencils
H_P_REL = 2.0e-3    # relative pressure step of the stencils (steam); liquid: H_P_REL*p + H_P_ABS
H_P_ABS = 1.0e4     # Pa (liquid: u and v are nearly linear in p; a wide step keeps rounding noise of u out)
H_D_REL = 1.0e-3    # relative density step (region 3)


def clamp_centre(x, h, lo, hi):
    """Move the stencil centre inward so that x-2h >= lo and x+2h <= hi."""
    return min(max(x, lo + 2. * h), hi - 2. * h)


def identity_tp(f, t, p, hp, t_hi, p_hi=P_MAX):
    """Residual of (du/dp)_T + T (dv/dT)_p + p (dv/dp)_T = 0 for a routine f(t, p) -> (density, energy),
    normalised by the sum of the absolute values of the three terms plus 1e-3 of the specific volume.  The centre is moved inward when the
    stencil would leave [T_MIN, t_hi] x (0, p_hi].  Returns (residual, (t, p) actually used) or None when
    the routine refused one of the stencil states."""
    t = clamp_centre(t, H_T, T_MIN, t_hi)
    p = min(p, p_hi - 2. * hp)
    if p - 2. * hp <= 0.:
        p = 2. * hp * 1.5
    vs, us = {}, {}
    for key, (tt, pp) in (('t-2', (t - 2 * H_T, p)), ('t-1', (t - H_T, p)), ('t+1', (t + H_T, p)),
                          ('t+2', (t + 2 * H_T, p)), ('p-2', (t, p - 2 * hp)), ('p-1', (t, p - hp)),
                          ('p+1', (t, p + hp)), ('p+2', (t, p + 2 * hp))):
        r = f(tt, pp)
        if r is None or r[0] is None:
            return None
        vs[key] = 1. / float(r[0])
        us[key] = float(r[1])
    tk = t + TC_K
    dvdt = d4(vs['t-2'], vs['t-1'], vs['t+1'], vs['t+2'], H_T)
    dvdp = d4(vs['p-2'], vs['p-1'], vs['p+1'], vs['p+2'], hp)
    dudp = d4(us['p-2'], us['p-1'], us['p+1'], us['p+2'], hp)
    a, b, c = dudp, tk * dvdt, p * dvdp
    # all three terms are specific volumes; the floor of 1e-3 v keeps the measure meaningful where they all
    # vanish together (liquid water at its density maximum near 4 degC, low pressure)
    scale = abs(a) + abs(b) + abs(c) + 1.e-3 * 0.5 * (vs['t-1'] + vs['t+1'])
    if not (scale > 0. and scale < INF):
        return (INF, (t, p))
    return (abs(a + b + c) / scale, (t, p))


_CENTRAL = ((-2, 1.), (-1, -8.), (1, 8.), (2, -1.))
_FORWARD = ((0, -25.), (1, 48.), (2, -36.), (3, 16.), (4, -3.))
_BACKWARD = ((0, 25.), (-1, -48.), (-2, 36.), (-3, -16.), (-4, 3.))


def _stencil(x, h, lo, hi, lo_open=False):
    """4th-order stencil [(offset in steps, weight)] (derivative = sum w f / (12 h)) that stays inside [lo, hi]
    ((lo, hi] when lo_open): central where there is room, else one-sided."""
    low_ok = (x - 2. * h > lo) if lo_open else (x - 2. * h >= lo)
    if low_ok and x + 2. * h <= hi:
        return _CENTRAL, False
    if not low_ok:
        return _FORWARD, True
    return _BACKWARD, True


def identity_tp_edge(f, t, p, hp, t_hi, p_hi=P_MAX):
    """The same residual as identity_tp AT the state (t, p) itself when that state is closer than two steps to
    a limit of [T_MIN, t_hi] x (0, p_hi]: one-sided 4th-order differences replace the central ones in the
    variable(s) concerned, so that the limit states themselves are judged (identity_tp moves its centre
    inward there).  Returns 'interior' when no one-sided stencil is needed, None when the routine refused a
    stencil state, else the residual."""
    st_t, edge_t = _stencil(t, H_T, T_MIN, t_hi)
    st_p, edge_p = _stencil(p, hp, 0., p_hi, lo_open=True)
    if not (edge_t or edge_p):
        return 'interior'
    cache = {}

    def at(kt, kp):
        key = (kt, kp)
        if key not in cache:
            r = f(t + kt * H_T, p + kp * hp)
            cache[key] = None if (r is None or r[0] is None) else (1. / float(r[0]), float(r[1]))
        return cache[key]

    dvdt = dvdp = dudp = 0.
    for k, w in st_t:
        r = at(k, 0)
        if r is None:
            return None
        dvdt += w * r[0]
    for k, w in st_p:
        r = at(0, k)
        if r is None:
            return None
        dvdp += w * r[0]
        dudp += w * r[1]
    r0 = at(0, 0)
    if r0 is None:
        return None
    dvdt /= 12. * H_T
    dvdp /= 12. * hp
    dudp /= 12. * hp
    a, b, c = dudp, (t + TC_K) * dvdt, p * dvdp
    scale = abs(a) + abs(b) + abs(c) + 1.e-3 * r0[0]
    if not (scale > 0. and scale < INF):
        return INF
    return abs(a + b + c) / scale


# ----------------------------------------------------------------------------------------------------------
# Region 4 (saturation line): where the quadratics of the two closed-form solutions degenerate
# ----------------------------------------------------------------------------------------------------------
# Coefficients n1..n10 of the IAPWS-IF97 saturation equation as published (Wagner et al. 2000, table 34).  They
# are used ONLY to place lattice points (never as an oracle): the saturation-pressure equation solves
#   A x^2 + B x + C = 0,  A = th^2 + n1 th + n2,  B = n3 th^2 + n4 th + n5,  C = n6 th^2 + n7 th + n8,
#   th = T + n9 / (T - n10),
# and the backward equation solves  E y^2 + F y + G = 0,  E = b^2 + n3 b + n6,  F = n1 b^2 + n4 b + n7,
# G = n2 b^2 + n5 b + n8,  b = (p / 1 MPa)^(1/4).  Wherever one of A, B, C (E, F, G) passes through zero inside
# the range, an implementation that divides by it or subtracts nearly equal roots loses all accuracy within a
# few ulps - states no uniform lattice contains.
N4 = (0.11670521452767e4, -0.72421316703206e6, -0.17073846940092e2, 0.12020824702470e5, -0.32325550322333e7,
      0.14915108613530e2, -0.48232657361591e4, 0.40511340542057e6, -0.23855557567849, 0.65017534844798e3)


def _theta(t):
    tk = t + TC_K
    return tk + N4[8] / (tk - N4[9])


def sat_quadratic_coefficients(t):
    th = _theta(t)
    th2 = th * th
    return (th2 + N4[0] * th + N4[1], N4[2] * th2 + N4[3] * th + N4[4], N4[5] * th2 + N4[6] * th + N4[7])


def tsat_quadratic_coefficients(p):
    b2 = math.sqrt(p / 1.e6)
    b = math.sqrt(b2)
    return (b2 + N4[2] * b + N4[5], N4[0] * b2 + N4[3] * b + N4[6], N4[1] * b2 + N4[4] * b + N4[7])


def sign_changes(fun, lo, hi, n=20000):
    """[(name index, x)] - for each component of fun, every place in [lo, hi] where it changes sign, located by a
    scan of n steps and bisection down to adjacent doubles (returns the double just below the change)."""
    out = []
    xs = [lo + (hi - lo) * k / float(n) for k in range(n + 1)]
    prev = fun(xs[0])
    for a, b in zip(xs[:-1], xs[1:]):
        cur = fun(b)
        for i in range(len(cur)):
            if prev[i] == 0. or (prev[i] < 0.) != (cur[i] < 0.):
                l, h = a, b
                fl = prev[i]
                while True:
                    mid = 0.5 * (l + h)
                    if mid <= l or mid >= h:
                        break
                    fm = fun(mid)[i]
                    if fm != 0. and (fm < 0.) == (fl < 0.):
                        l = mid
                    else:
                        h = mid
                out.append((i, l))
        prev = cur
    return out


def neighbourhood(x, ulps=48, decades=(-13, -3)):
    """x, its nearest 'ulps' doubles on each side, and x*(1 +- 10^k) for the decades given."""
    pts = set([x])
    a = b = x
    for _ in range(ulps):
        a, b = down(a), up(b)
        pts.add(a)
        pts.add(b)
    for k in range(decades[0], decades[1] + 1):
        pts.add(x * (1. + 10. ** k))
        pts.add(x * (1. - 10. ** k))
    return sorted(pts)


def identity_dt(f, d, t):
    """Residual of (du/dv)_T = T (dp/dT)_v - p for a routine f(d, t) -> (pressure, energy), i.e.
    -d**2 (du/dd)_T - T (dp/dT)_d + p = 0, normalised by the sum of the absolute values of the terms."""
    hd = H_D_REL * d
    ps, us = {}, {}
    for key, (dd, tt) in (('t-2', (d, t - 2 * H_T)), ('t-1', (d, t - H_T)), ('t+1', (d, t + H_T)),
                          ('t+2', (d, t + 2 * H_T)), ('d-2', (d - 2 * hd, t)), ('d-1', (d - hd, t)),
                          ('d+1', (d + hd, t)), ('d+2', (d + 2 * hd, t))):
        r = f(dd, tt)
        ps[key] = float(r[0])
        us[key] = float(r[1])
    p0 = float(f(d, t)[0])
    tk = t + TC_K
    dpdt = d4(ps['t-2'], ps['t-1'], ps['t+1'], ps['t+2'], H_T)
    dudd = d4(us['d-2'], us['d-1'], us['d+1'], us['d+2'], hd)
    a, b, c = -d * d * dudd, -tk * dpdt, p0
    scale = abs(a) + abs(b) + abs(c)
    if not scale > 0.:
        return INF
    return abs(a + b + c) / scale


# ----------------------------------------------------------------------------------------------------------
# Region 3 helpers (the reference needs a density for a given (T, p); bisection on the monotone branch)
# ----------------------------------------------------------------------------------------------------------

def bisect_density(sup, t, p, d_lo, d_hi, iters=200):
    """Density in [d_lo, d_hi] with sup(d, t)[0] = p, assuming sup(.,t)[0] - p changes sign once there.
    Deterministic bisection to the last bit; returns None when there is no sign change."""
    f_lo = float(sup(d_lo, t)[0]) - p
    f_hi = float(sup(d_hi, t)[0]) - p
    if f_lo == 0.:
        return d_lo
    if f_hi == 0.:
        return d_hi
    if (f_lo > 0.) == (f_hi > 0.):
        return None
    for _ in range(iters):
        mid = 0.5 * (d_lo + d_hi)
        if mid <= d_lo or mid >= d_hi:
            break
        f_mid = float(sup(mid, t)[0]) - p
        if f_mid == 0.:
            return mid
        if (f_mid > 0.) == (f_lo > 0.):
            d_lo, f_lo = mid, f_mid
        else:
            d_hi, f_hi = mid, f_mid
    return 0.5 * (d_lo + d_hi)


def saturated_densities(sup, t, psat, d_min=20.0, step=1.0, p_stop=P_MAX, d_stop=1500.0):
    """(vapour, liquid) densities of the region 3 equation at saturation pressure psat, t < critical.
    The isotherm is scanned upward from d_min in steps until its pressure exceeds p_stop; the vapour density
    is the first upward crossing of p = psat and the liquid density the last one (the outer, stable
    branches), each refined by bisection.  None when there are not two upward crossings (no loop)."""
    ups = []
    prev = d_min
    f_prev = float(sup(prev, t)[0]) - psat
    if f_prev > 0.:
        return None
    d = d_min
    while d < d_stop:
        d += step
        pd = float(sup(d, t)[0])
        f = pd - psat
        if f_prev < 0. <= f:
            ups.append((prev, d))
        prev, f_prev = d, f
        if pd > p_stop:
            break
    if len(ups) < 2:
        return None
    dv = bisect_density(sup, t, psat, ups[0][0], ups[0][1])
    dl = bisect_density(sup, t, psat, ups[-1][0], ups[-1][1])
    if dv is None or dl is None or not dv < dl:
        return None
    return dv, dl


# 16-point Gauss-Legendre nodes/weights on [-1, 1] (for the equal-area integral)
_GL16 = [(0.0950125098376374, 0.1894506104550685), (0.2816035507792589, 0.1826034150449236),
         (0.4580167776572274, 0.1691565193950025), (0.6178762444026438, 0.1495959888165767),
         (0.7554044083550030, 0.1246289712555339), (0.8656312023878318, 0.0951585116824928),
         (0.9445750230732326, 0.0622535239386479), (0.9894009349916499, 0.0271524594117541)]


def maxwell_pressure(sup, t, dv, dl, panels=8):
    """Equal-area (Maxwell) pressure of the isotherm t of the region 3 equation between the specific
    volumes 1/dl and 1/dv:  integral p dv / (v'' - v'), by composite 16-point Gauss-Legendre in v."""
    va, vb = 1. / dl, 1. / dv
    total = 0.
    w = (vb - va) / panels
    for k in range(panels):
        a = va + k * w
        mid, half = a + 0.5 * w, 0.5 * w
        for x, wt in _GL16:
            for s in (-1., 1.):
                v = mid + s * x * half
                total += wt * half * float(sup(1. / v, t)[0])
    return total / (vb - va)


# ----------------------------------------------------------------------------------------------------------
# Reference predicates.  Answers are sets of acceptable values.
# ----------------------------------------------------------------------------------------------------------

def region97_ref(t, p, psat, pb23):
    """IAPWS-97 region of (t degC, p Pa): region 1 above the saturation pressure up to 350 degC, region 3
    above the 2|3 boundary from 350 to 590 degC, region 2 otherwise; None outside 0.01..800 degC,
    0..100 MPa.  psat / pb23 are the curve values at t (None when the curve is not defined there).
    Exactly on a curve either side is accepted."""
    if not (T_MIN <= t <= T_MAX and 0. <= p <= P_MAX):
        return set([None])
    if p == 0.:
        # the vacuum edge: no region's equation is valid there (region 2 needs p > 0), so "out of bounds" is
        # right; the library documents 0 as the lower bound, so region 2 is accepted as well - then the
        # caller's "routine accepts the state" clause decides
        return set([None, 2])
    if t <= T_13:
        if p > psat:
            return set([1])
        if p < psat:
            return set([2])
        return set([1, 2])
    if t <= T_23_END:
        if p > pb23:
            return set([3])
        if p < pb23:
            return set([2])
        return set([2, 3])
    return set([2])


def in_tcrit67_band(t):
    return TCRIT67_LO <= t <= TCRIT67_HI


def cowat67_range(t, p, psat):
    """Operating range of t2thermo.cowat (IFC-67 region 1, closed): 0.01 <= t <= 350 degC and
    sat(t) <= p <= 100 MPa, where sat(t) is the t2thermo function's own value at that t - bit for bit the
    number the routine compares with, so the answer exactly on the curve is determined (inside).
    Returns the set of acceptable answers to 'inside?'."""
    return set([bool(T_MIN <= t <= T_13 and psat <= p <= P_MAX)])


def supst67_range(t, p, psat, pb23):
    """Operating range of t2thermo.supst (ruling of the framework owner: the range is what the routine's own
    bounds logic states, which is how TOUGH2 uses SUPST - the vapour phase up to saturation for every
    temperature up to the IFC-67 critical temperature; the documentation's "region 2" is loose wording):
    0.01 <= t <= 800 degC, p > 0, and (all limits closed, the curves being t2thermo's own sat / b23p values)
        p <= sat(t)   for t <= 374.15 degC,
        p <= b23p(t)  for 374.15 < t <= 590 degC,
        p <= 100 MPa  above.
    "Either answer" is kept only where two nominally coincident limits differ by rounding of printed
    coefficients: between 100 MPa and b23p(t) where the curve exceeds 100 MPa (t within 1e-6 degC of 590),
    and between the printed 374.15 and the computed 647.3 - 273.15 should they differ in the last bit."""
    if not (T_MIN <= t <= T_MAX) or p <= 0.:
        return set([False])
    if t > T_23_END:
        return set([p <= P_MAX])
    if t < TCRIT67_LO or (t <= TCRIT67_HI and TCRIT67_LO == TCRIT67_HI):
        return set([p <= psat and p <= P_MAX])
    if t <= TCRIT67_HI:
        return set([p <= psat and p <= P_MAX, p <= pb23 and p <= P_MAX])
    if p > P_MAX:
        return set([True, False]) if p <= pb23 else set([False])
    return set([p <= pb23])


def sat67_range(t):
    """doc: None when t < 0.01 degC or t > the critical temperature 374.15 degC.  The printed 374.15 and
    the formulation's 647.3 - 273.15 may differ in the last bit; between them either answer is accepted."""
    if t < T_MIN:
        return set([False])
    if t < TCRIT67_LO:
        return set([True])
    if t <= TCRIT67_HI:
        return set([True]) if TCRIT67_LO == TCRIT67_HI else set([True, False])
    return set([False])


def tsat67_range(p, psat_min):
    """doc: None when p < sat(0.01) or p > the critical pressure 22.12 MPa."""
    return set([psat_min <= p <= PCRIT67])


# ----------------------------------------------------------------------------------------------------------
# Calibrated tolerances
# ----------------------------------------------------------------------------------------------------------
# name -> (measured worst value on the pinned tree, multiplier, unit, where the worst was met / what it is)
# tolerance enforced = measured * multiplier.  These are the noise-limited quantities (inverse pairs: rounding;
# identities: rounding of u and stencil truncation), hence the generous multipliers of DESIGN.md (100 / 10).
# Measured on /repo (IAPWS97.py unchanged since the pinned snapshot 7b95aa4; t2thermo.py changed only in tsat,
# commit 335de5e) as the larger of the quick and the thorough tier, by running the checks with VERIF_CALIBRATE=1
# (nothing calibrated is enforced; the worst value of every quantity is printed, see print_calibration).
TOL = {
    # --- C14 (2): inverse pairs (multiplier 100, DESIGN C14(2)) -------------------------------------------
    'satinv_t': (4.172306944383308e-11, 100., 'degC', '|tsat(sat(t)) - t|, worst at t = 373.73 over all 37 396 points'),
    # (since the F9 repair e61f150 clamps sat() to pcritical, tsat(sat(tcritical)) = tsat(pcritical) = tcritical - 1.19e-9:
    #  the end point is now the worst point of the run, 3.5 x inside the tolerance; deliberately not re-calibrated)
    'satinv_p': (3.6461850883467906e-13, 100., 'relative', '|sat(tsat(p)) - p| / p, worst at p = 21.83 MPa (4 000-point log lattice)'),
    'b23inv_t': (1.6353851606254466e-10, 100., 'degC', '|b23t(b23p(t)) - t|, worst at t = 350 + 1 ulp over all 24 005 points'),
    'b23inv_p': (1.021407699421442e-12, 100., 'relative', '|b23p(b23t(p)) - p| / p, worst at p = b23p(350)'),
    # --- C14 (3): single-potential identities, 4th-order stencils (multiplier 10) ------------------------
    # residual / (sum of |terms| + 1e-3 v).  The worst values are rounding noise of u (liquid, 4 degC, where
    # all terms vanish) and stencil truncation next to the critical region; a derivative sum that uses the
    # wrong power (i - 1 -> i) gives residuals of order 0.1 .. 1.
    'identity_r1': (7.402458186063363e-08, 10., 'relative', 'cowat, worst at (4 degC, 21.3 kPa); 3.8e-8 at (349.5 degC, sat)'),
    'identity_r2': (5.663644636954541e-08, 10., 'relative', 'supst, worst at (350 degC, sat(350))'),
    'identity_r3': (1.2756638604291217e-10, 10., 'relative', 'super, worst at (695 kg/m3, 350 degC)'),
    # the same residual AT the limit states of the lattices (one-sided 4th-order differences, identity_tp_edge):
    'identity_r1_edge': (2.229420465493478e-07, 10., 'relative', 'cowat, worst at (350 degC, sat(350))'),
    'identity_r2_edge': (5.561600513700015e-08, 10., 'relative', 'supst, worst at (590 degC, 100 MPa)'),
    # --- C15 (b): the same identity for the IFC-67 routines (multiplier 10) -----------------------------------
    'identity67_cowat': (1.8155759104526315e-07, 10., 'relative', 't2thermo.cowat, worst at (349.5 degC, sat(349.5))'),
    'identity67_supst': (1.1757646346360867e-06, 10., 'relative', 't2thermo.supst, worst at (350 degC, 16.53 MPa)'),
    'identity67_cowat_edge': (1.1150147293862156e-06, 10., 'relative', 't2thermo.cowat at limit states, worst at (350 degC, sat97(350))'),
    'identity67_supst_edge': (3.393743937603148e-09, 10., 'relative', 't2thermo.supst at limit states, worst at (594 degC, 100 MPa)'),
    # C15 (c) tsat(sat(t)) = t uses the fixed 1e-6 degC of DESIGN.md (checks/c15.py TSAT_TOL); measured worst
    # under the F10 remedy: 2.68e-10 degC at 364.5 degC.
}


def tol(name):
    m = TOL[name]
    return m[0] * m[1]


# Signed, banded tolerances for quantities that are NOT rounding noise but properties of the formulations
# themselves (the jump across a region boundary, the difference IFC-67 - IAPWS-97).  They are deterministic
# functions of the coefficients, so the only legitimate variation is the position of the lattice points.
# Each band records the smallest and the largest signed value met on the pinned tree (union of the quick and
# the thorough lattice); the interval enforced is
#       [ min - m,  max + m ],   m = BAND_KW * (max - min) + BAND_KM * max(|min|, |max|)
# i.e. the measured range widened on each side by a tenth of its own width plus 1 % of its magnitude (in the
# terms of DESIGN.md: "multiplier" 1.2 on the width of the measured range).  The margin is not needed for the
# unchanged tree at all (the same lattice points give the same numbers); it only sets how large a change of a
# coefficient is tolerated.  Keeping the sign and the sub-ranges (temperature / pressure bands) is what makes a
# changed coefficient visible: it shifts the whole profile one way, which a single worst-magnitude figure with
# a x3 or x10 margin hides completely (measured: with "worst x 10" no change of any single digit beyond the
# 2nd of any IAPWS-97 coefficient was detected; with the bands the 6th significant digit of the leading
# coefficients is).  The bands must be re-measured whenever a lattice of checks/c14.py or c15.py changes.
# name -> (min, max, where)           units in the group comments
BAND_KW = 0.1
BAND_KM = 0.01
BAND = {
    # --- C14 (5): agreement across region boundaries -----------------------------------------------------------
    # x13_density / x13_energy: 350 degC, (region 3 - region 1) relative density / energy in J/kg at the same p
    # x23_density / x23_energy: on b23p(t), (region 3 - region 2) relative density / energy in J/kg
    # x34_pressure: (equal-area pressure of the region 3 isotherm - sat(t)) / sat(t), 350..373.5 degC
    # x12_clapeyron: (T (v''-v') dps/dT - (h''-h')) / (h''-h') from cowat, supst and sat on the saturation line
    # (orientation only, the release is not available offline: IAPWS-IF97 prescribes 0.05 % in v and 0.2 kJ/kg
    #  in h at the 1|3 and 2|3 boundaries and reports actual maxima of the size measured here:
    #  measured max |dv/v| 3.6e-5 (1|3), 1.8e-4 (2|3); max |du| 30 J/kg (1|3), 119 J/kg (2|3))
    'x12_clapeyron@T0-50': (-2.40915e-05, 5.39289e-05, 'min at t=17.0; max at t=50.0'),
    'x12_clapeyron@T50-100': (-1.4166e-05, 6.06168e-05, 'min at t=100.0; max at t=59.0'),
    'x12_clapeyron@T100-150': (-6.31586e-05, -1.52612e-05, 'min at t=142.0; max at t=100.5'),
    'x12_clapeyron@T150-200': (-6.09845e-05, 2.53889e-05, 'min at t=150.5; max at t=200.0'),
    'x12_clapeyron@T200-250': (2.65574e-05, 7.02628e-05, 'min at t=200.5; max at t=230.5'),
    'x12_clapeyron@T250-300': (-6.49768e-05, 4.21018e-05, 'min at t=289.5; max at t=250.5'),
    'x12_clapeyron@T300-350': (-4.51805e-05, 0.00015565, 'min at t=300.5; max at t=333.0'),
    'x13_density@p<=25MPa': (-3.29632e-05, 3.40808e-05, 'min at p=16529164.25260448; max at p=21503072.25450211'),
    'x13_density@p<=40MPa': (-3.63674e-05, -1.51491e-06, 'min at p=27672917.17941768; max at p=35040200.91442579'),
    'x13_density@p<=60MPa': (-2.28219e-05, 2.74559e-05, 'min at p=43576557.21752228; max at p=59946111.243957095'),
    'x13_density@p<=100MPa': (-9.82045e-06, 2.79799e-05, 'min at p=86109263.40053964; max at p=61477536.765265'),
    'x13_energy@p<=25MPa': (-9.44727, 29.7179, 'min at p=23068494.2665225; max at p=16529164.25260448'),
    'x13_energy@p<=40MPa': (-7.57841, 27.1805, 'min at p=25016881.516668323; max at p=39966065.62149302'),
    'x13_energy@p<=60MPa': (-12.1993, 29.0732, 'min at p=59946111.243957095; max at p=42109958.61231991'),
    'x13_energy@p<=100MPa': (-15.357, 11.0898, 'min at p=65361578.77860847; max at p=91549494.32688217'),
    'x23_density@T350-390': (-0.000114204, -5.36944e-05, 'min at t=351.5; max at t=363.8'),
    'x23_density@T390-430': (-5.51474e-05, 0.000181949, 'min at t=390.1; max at t=425.8'),
    'x23_density@T430-470': (-7.66943e-05, 0.000173957, 'min at t=465.0; max at t=430.1'),
    'x23_density@T470-510': (-6.75091e-05, 0.0001131, 'min at t=470.1; max at t=502.90000000000003'),
    'x23_density@T510-550': (-7.66449e-05, 9.66547e-05, 'min at t=540.1; max at t=510.1'),
    'x23_density@T550-590': (-4.83858e-05, 1.26499e-05, 'min at t=550.1; max at t=566.0'),
    'x23_energy@T350-390': (14.6165, 42.5822, 'min at t=366.1; max at t=352.6'),
    'x23_energy@T390-430': (-98.2329, 36.777, 'min at t=429.90000000000003; max at t=390.1'),
    'x23_energy@T430-470': (-98.2205, 70.4167, 'min at t=430.1; max at t=470.0'),
    'x23_energy@T470-510': (-112.471, 71.4065, 'min at t=510.0; max at t=472.1'),
    'x23_energy@T510-550': (-118.839, 101.125, 'min at t=514.5; max at t=550.0'),
    'x23_energy@T550-590': (-43.5445, 102.706, 'min at t=580.0; max at t=551.9'),
    'x34_pressure@T350-360': (-1.50346e-05, 2.75581e-06, 'min at t=360.0; max at t=350.0'),
    'x34_pressure@T360-370': (-2.59468e-05, -9.11455e-06, 'min at t=365.5; max at t=370.0'),
    'x34_pressure@T370-373.5': (-7.0868e-06, 8.74563e-06, 'min at t=370.25; max at t=372.75'),
    # --- C15 (a): IFC-67 (t2thermo) minus IAPWS-97 on the common range ------------------------------------------
    # cmp_cowat_density / cmp_supst_density: (d67 - d97) / d97;  cmp_cowat_energy / cmp_supst_energy: u67 - u97 in J/kg
    # cmp_sat: (sat67 - sat97) / sat97, 10 degC bands.  Steam bands are split at p = 0.1 * (upper pressure limit
    # of the isotherm).  DESIGN.md planned "worst x 3"; the signed bands are tighter and were preferred.
    'cmp_cowat_density@T0-50': (-7.63421e-05, 0.000414344, 'min at t=0.01 p=16022177.980704544; max at t=8.0 p=100000000.0'),
    'cmp_cowat_density@T50-100': (-0.000242077, 0.000308543, 'min at t=100.0 p=101325.26197136242; max at t=100.0 p=100000000.0'),
    'cmp_cowat_density@T100-150': (-0.000291218, 0.000505888, 'min at t=127.0 p=246750.8124056093; max at t=150.0 p=100000000.0'),
    'cmp_cowat_density@T150-200': (-0.000252503, 0.000514042, 'min at t=151.0 p=488897.9527359455; max at t=161.0 p=100000000.0'),
    'cmp_cowat_density@T200-250': (-3.57228e-05, 0.000517897, 'min at t=250.0 p=100000000.0; max at t=250.0 p=26637023.0843874'),
    'cmp_cowat_density@T250-300': (-0.00058822, 0.000566808, 'min at t=300.0 p=100000000.0; max at t=274.0 p=26015310.074367'),
    'cmp_cowat_density@T300-350': (-0.0022989, 0.000466549, 'min at t=350.0 p=100000000.0; max at t=301.0 p=34118140.1373148'),
    'cmp_cowat_energy@T0-50': (-214.199, 531.047, 'min at t=22.0 p=100000000.0; max at t=0.01 p=100000000.0'),
    'cmp_cowat_energy@T50-100': (-97.0276, 58.7254, 'min at t=51.0 p=25532676.73071563; max at t=100.0 p=100000000.0'),
    'cmp_cowat_energy@T100-150': (-101.888, 59.6263, 'min at t=150.0 p=475996.8620466946; max at t=106.0 p=100000000.0'),
    'cmp_cowat_energy@T150-200': (-102.245, 112.561, 'min at t=153.0 p=515539.9028772073; max at t=200.0 p=61017662.979553476'),
    'cmp_cowat_energy@T200-250': (-19.4064, 198.033, 'min at t=201.0 p=1587457.4430488143; max at t=247.0 p=48591808.08232278'),
    'cmp_cowat_energy@T250-300': (-340.743, 289.931, 'min at t=300.0 p=100000000.0; max at t=300.0 p=8587708.329557277'),
    'cmp_cowat_energy@T300-350': (-3625.06, 1255.55, 'min at t=350.0 p=100000000.0; max at t=350.0 p=25343704.41732143'),
    'cmp_sat@T0-10': (-0.000974591, -0.000674561, 'min at t=10.0; max at t=0.01'),
    'cmp_sat@T10-20': (-0.00113423, -0.000976724, 'min at t=20.0; max at t=10.1'),
    'cmp_sat@T20-30': (-0.0012241, -0.0011354, 'min at t=30.0; max at t=20.1'),
    'cmp_sat@T30-40': (-0.00127523, -0.00122478, 'min at t=40.0; max at t=30.1'),
    'cmp_sat@T40-50': (-0.00129574, -0.00127558, 'min at t=50.0; max at t=40.1'),
    'cmp_sat@T50-60': (-0.00129614, -0.00128428, 'min at t=51.6; max at t=60.0'),
    'cmp_sat@T60-70': (-0.001284, -0.00123829, 'min at t=60.1; max at t=70.0'),
    'cmp_sat@T70-80': (-0.00123766, -0.001158, 'min at t=70.1; max at t=80.0'),
    'cmp_sat@T80-90': (-0.00115704, -0.00104751, 'min at t=80.1; max at t=90.0'),
    'cmp_sat@T90-100': (-0.00104628, -0.000914196, 'min at t=90.1; max at t=100.0'),
    'cmp_sat@T100-110': (-0.000912779, -0.000767351, 'min at t=100.1; max at t=110.0'),
    'cmp_sat@T110-120': (-0.000765847, -0.00061667, 'min at t=110.1; max at t=120.0'),
    'cmp_sat@T120-130': (-0.000615175, -0.000470939, 'min at t=120.1; max at t=130.0'),
    'cmp_sat@T130-140': (-0.000469532, -0.000337067, 'min at t=130.1; max at t=140.0'),
    'cmp_sat@T140-150': (-0.000335806, -0.000219531, 'min at t=140.1; max at t=150.0'),
    'cmp_sat@T150-160': (-0.000218447, -0.000120196, 'min at t=150.1; max at t=160.0'),
    'cmp_sat@T160-170': (-0.000119294, -3.84682e-05, 'min at t=160.1; max at t=170.0'),
    'cmp_sat@T170-180': (-3.77324e-05, 2.82939e-05, 'min at t=170.1; max at t=180.0'),
    'cmp_sat@T180-190': (2.88989e-05, 8.41843e-05, 'min at t=180.1; max at t=190.0'),
    'cmp_sat@T190-200': (8.47044e-05, 0.000134032, 'min at t=190.1; max at t=200.0'),
    'cmp_sat@T200-210': (0.000134517, 0.000182631, 'min at t=200.1; max at t=210.0'),
    'cmp_sat@T210-220': (0.000183125, 0.000233966, 'min at t=210.1; max at t=220.0'),
    'cmp_sat@T220-230': (0.000234503, 0.000290515, 'min at t=220.1; max at t=230.0'),
    'cmp_sat@T230-240': (0.00029111, 0.000352664, 'min at t=230.1; max at t=240.0'),
    'cmp_sat@T240-250': (0.000353309, 0.000418333, 'min at t=240.1; max at t=250.0'),
    'cmp_sat@T250-260': (0.000418994, 0.000482886, 'min at t=250.1; max at t=260.0'),
    'cmp_sat@T260-270': (0.000483504, 0.000539437, 'min at t=260.1; max at t=270.0'),
    'cmp_sat@T270-280': (0.000539934, 0.000579672, 'min at t=270.1; max at t=280.0'),
    'cmp_sat@T280-290': (0.000579963, 0.000595315, 'min at t=280.1; max at t=290.0'),
    'cmp_sat@T290-300': (0.000580326, 0.000595331, 'min at t=300.0; max at t=290.3'),
    'cmp_sat@T300-310': (0.000533836, 0.000580012, 'min at t=310.0; max at t=300.1'),
    'cmp_sat@T310-320': (0.000463558, 0.000533229, 'min at t=320.0; max at t=310.1'),
    'cmp_sat@T320-330': (0.00038888, 0.00046279, 'min at t=330.0; max at t=320.1'),
    'cmp_sat@T330-340': (0.000341718, 0.00038821, 'min at t=340.0; max at t=330.1'),
    'cmp_sat@T340-350': (0.000338776, 0.000360563, 'min at t=342.8; max at t=350.0'),
    'cmp_sat@T350-360': (0.000361193, 0.000464246, 'min at t=350.1; max at t=360.0'),
    'cmp_sat@T360-370': (0.000465568, 0.000536077, 'min at t=360.1; max at t=367.3'),
    'cmp_sat@T370-380': (0.000107764, 0.000504104, 'min at t=373.946; max at t=370.1'),
    'cmp_supst_density@T0-100,p-high': (-0.000212297, 0.000256753, 'min at t=34.0 p=5318.037866714129; max at t=100.0 p=90110.07825910734'),
    'cmp_supst_density@T0-100,p-low': (1.67327e-05, 7.68007e-05, 'min at t=30.0 p=422.63808752486096; max at t=100.0 p=10088.156792118454'),
    'cmp_supst_density@T100-200,p-high': (8.11991e-05, 0.000548068, 'min at t=101.0 p=11175.166709428579; max at t=200.0 p=1320061.0464184817'),
    'cmp_supst_density@T100-200,p-low': (3.47192e-05, 0.000133326, 'min at t=200.0 p=100.0; max at t=151.0 p=48837.36919785371'),
    'cmp_supst_density@T200-300,p-high': (-0.000302381, 0.00132432, 'min at t=300.0 p=8587708.329557277; max at t=292.0 p=5741699.333189896'),
    'cmp_supst_density@T200-300,p-low': (9.33199e-07, 8.90335e-05, 'min at t=267.0 p=478709.55608315754; max at t=203.0 p=165065.36632323277'),
    'cmp_supst_density@T300-400,p-high': (-0.00172641, 0.00135789, 'min at t=400.0 p=24235600.162638094; max at t=352.0 p=13652313.04009439'),
    'cmp_supst_density@T300-400,p-low': (2.66907e-05, 0.000602558, 'min at t=301.0 p=861474.9331493444; max at t=400.0 p=2401997.5821262286'),
    'cmp_supst_density@T400-500,p-high': (-0.00253033, 0.0046694, 'min at t=415.0 p=27541345.514477372; max at t=478.0 p=46432336.089591675'),
    'cmp_supst_density@T400-500,p-low': (3.4709e-05, 0.00131903, 'min at t=401.0 p=100.0; max at t=500.0 p=5124178.945941793'),
    'cmp_supst_density@T500-600,p-high': (-0.00137491, 0.00287781, 'min at t=545.0 p=75403099.17763248; max at t=501.0 p=55345659.77706302'),
    'cmp_supst_density@T500-600,p-low': (3.46991e-05, 0.00154913, 'min at t=600.0 p=100.0; max at t=563.0 p=8382134.093314706'),
    'cmp_supst_density@T600-700,p-high': (-0.000982378, 0.00365006, 'min at t=672.0 p=70170382.86703855; max at t=675.0 p=100000000.0'),
    'cmp_supst_density@T600-700,p-low': (3.46886e-05, 0.0014854, 'min at t=700.0 p=100.0; max at t=601.0 p=9617248.71115296'),
    'cmp_supst_density@T700-800,p-high': (-0.00127893, 0.00293483, 'min at t=800.0 p=100000000.0; max at t=701.0 p=100000000.0'),
    'cmp_supst_density@T700-800,p-low': (3.46828e-05, 0.00108315, 'min at t=800.0 p=100.0; max at t=701.0 p=9617248.71115296'),
    'cmp_supst_energy@T0-100,p-high': (107.614, 838.663, 'min at t=100.0 p=10908.743639938017; max at t=58.0 p=18147.326521634932'),
    'cmp_supst_energy@T0-100,p-low': (95.2456, 337.342, 'min at t=96.0 p=100.0; max at t=7.0 p=100.0'),
    'cmp_supst_energy@T100-200,p-high': (-1542.47, 449.015, 'min at t=200.0 p=1213838.2639448969; max at t=101.0 p=104996.4621098299'),
    'cmp_supst_energy@T100-200,p-low': (-160.932, 103.62, 'min at t=192.0 p=117693.14330865347; max at t=101.0 p=9932.250408996946'),
    'cmp_supst_energy@T200-300,p-high': (-1682.21, 1717.22, 'min at t=227.0 p=2226753.544826056; max at t=300.0 p=8587708.329557277'),
    'cmp_supst_energy@T200-300,p-low': (-195.266, 367.293, 'min at t=203.0 p=165065.36632323277; max at t=300.0 p=851876.8588959158'),
    'cmp_supst_energy@T300-400,p-high': (-173.34, 4777.51, 'min at t=302.0 p=6595555.387523842; max at t=352.0 p=16739569.176644806'),
    'cmp_supst_energy@T300-400,p-low': (-343.991, 860.746, 'min at t=400.0 p=100.0; max at t=395.0 p=2321051.336164277'),
    'cmp_supst_energy@T400-500,p-high': (-938.028, 6899.57, 'min at t=500.0 p=54935692.14627605; max at t=431.0 p=31572729.364345923'),
    'cmp_supst_energy@T400-500,p-low': (-575.332, 831.959, 'min at t=500.0 p=1321056.0725779943; max at t=401.0 p=2418603.765271405'),
    'cmp_supst_energy@T500-600,p-high': (-7504.73, 430.809, 'min at t=596.0 p=79123426.18981345; max at t=501.0 p=35351086.81837927'),
    'cmp_supst_energy@T500-600,p-low': (-2533.98, -397.465, 'min at t=600.0 p=9617248.71115296; max at t=502.0 p=5187004.056702225'),
    'cmp_supst_energy@T600-700,p-high': (-7469.63, -2786.68, 'min at t=601.0 p=79123426.18981345; max at t=602.0 p=11937766.41714436'),
    'cmp_supst_energy@T600-700,p-low': (-3036.62, -727.147, 'min at t=674.0 p=9617248.71115296; max at t=601.0 p=100.0'),
    'cmp_supst_energy@T700-800,p-high': (-5401.29, -771.098, 'min at t=713.0 p=100000000.0; max at t=800.0 p=62605165.72014824'),
    'cmp_supst_energy@T700-800,p-low': (-2984.95, -1094.68, 'min at t=701.0 p=9617248.71115296; max at t=701.0 p=100.0'),
}


def band_limits(name):
    lo, hi = BAND[name][:2]
    m = BAND_KW * (hi - lo) + BAND_KM * max(abs(lo), abs(hi))
    return (lo - m, hi + m)


class Worst(object):
    """Worst values met by one work unit; travels to the parent in rec.notes and is merged by collect()."""

    def __init__(self):
        self.u = {}
        self.s = {}

    def add(self, m):
        for k, x in m.items():
            if len(x) == 3:
                v, where = x[0], x[1]
                e = self.s.get(k)
                if e is None:
                    self.s[k] = [v, where, v, where]
                else:
                    if v < e[0]:
                        e[0], e[1] = v, where
                    if v > e[2]:
                        e[2], e[3] = v, where
            else:
                v, where = x
                if k not in self.u or v > self.u[k][0]:
                    self.u[k] = (v, where)

    def flush(self, rec):
        for k in sorted(self.u):
            rec.notes.append('worst|%s|%r|%s' % (k, self.u[k][0], self.u[k][1]))
        for k in sorted(self.s):
            e = self.s[k]
            rec.notes.append('range|%s|%r|%r|%s|%s' % (k, e[0], e[2], e[1], e[3]))


def collect(notes):
    """Merge the notes written by Worst.flush.  Returns (unsigned, signed, other notes)."""
    u, sg, rest = {}, {}, []
    for n in notes:
        if n.startswith('worst|'):
            _, k, v, where = n.split('|', 3)
            v = float(v)
            if k not in u or v > u[k][0]:
                u[k] = (v, where)
        elif n.startswith('range|'):
            _, k, lo, hi, wlo, whi = n.split('|', 5)
            lo, hi = float(lo), float(hi)
            e = sg.get(k)
            if e is None:
                sg[k] = [lo, wlo, hi, whi]
            else:
                if lo < e[0]:
                    e[0], e[1] = lo, wlo
                if hi > e[2]:
                    e[2], e[3] = hi, whi
        else:
            rest.append(n)
    return u, sg, rest


def print_calibration(u, sg):
    """VERIF_CALIBRATE=1 ./vcheck C14|C15 quick|thorough: nothing calibrated is enforced; the worst values of the
    run are printed.  TOL entries take the larger of the two tiers; BAND entries the smaller min and the larger
    max of the two tiers (the lattices of the tiers are not nested).  Re-run after any change of a lattice."""
    for k in sorted(u):
        print('CALIBRATE-U %s %r at %s' % (k, u[k][0], u[k][1]))
    for k in sorted(sg):
        print('CALIBRATE-S %s %r %r at %s / %s' % (k, sg[k][0], sg[k][2], sg[k][1], sg[k][3]))


def evidence_of(u, sg):
    out = {}
    for k in sorted(u):
        t = TOL.get(k)
        out[k] = {'worst_this_run': u[k][0], 'at': u[k][1], 'tolerance': (t[0] * t[1]) if t else None,
                  'calibrated_worst': t[0] if t else None, 'multiplier': t[1] if t else None}
    for k in sorted(sg):
        b = BAND.get(k)
        out[k] = {'min_this_run': sg[k][0], 'max_this_run': sg[k][2],
                  'band_enforced': list(band_limits(k)) if b else None,
                  'calibrated_min_max': [b[0], b[1]] if b else None}
    return out


# ----------------------------------------------------------------------------------------------------------
# Repeatability and order independence (WAVE3 rule 2).  The routines are pure functions of their arguments, so
# the value of a call may not depend on what was called before it in the process.
# ----------------------------------------------------------------------------------------------------------

def canon(r):
    """Bit-exact canonical form of a result (None, number, tuple of numbers/None)."""
    if r is None:
        return None
    if isinstance(r, (tuple, list)):
        return tuple(canon(x) for x in r)
    try:
        return float(r).hex()
    except (TypeError, ValueError):
        return repr(r)


def history_pass(fresh, variants, timeout_exc):
    """variants: [(name, thunk)] - calls at ONE state.  'fresh' restores isolation (re-imports the library
    modules, so that whatever a routine keeps between calls - module globals, default arguments, function
    attributes - is as in a new process).
      isolated value of a call = its value as the first call after 'fresh';
      then, from one fresh state and without restoring in between: every call twice in a row, and for every
      ordered pair (f, g) the sequence f, g, f.  Every result must be bit-identical to the isolated value.
    Returns (number of calls compared, [(name, primer, isolated, got)] - one entry per deviating call; the
    primer is the single earlier call that reproduces the deviation from a fresh state, found by trying each
    variant in turn, or 'longer-history(last=...)' when no single call does)."""
    def run(th):
        try:
            return canon(th())
        except timeout_exc:
            raise
        except Exception as e:
            return 'raises:' + type(e).__name__

    iso = {}
    for name, th in variants:
        fresh()
        iso[name] = run(th)
    fresh()
    state = {'prev': 'fresh-import', 'n': 0}
    bad = {}

    def do(name, th):
        got = run(th)
        state['n'] += 1
        if got != iso[name] and name not in bad:
            bad[name] = (state['prev'], iso[name], got)
        state['prev'] = name

    for name, th in variants:
        do(name, th)
        do(name, th)
    for f in variants:
        for g in variants:
            if f is not g:
                do(*f)
                do(*g)
                do(*f)
    # attribution: the smallest history that reproduces a deviation - one primer call from a fresh state
    out = []
    by_name = dict(variants)
    for k in sorted(bad):
        prev, want, got = bad[k]
        primer = None
        for cname, cth in variants:
            fresh()
            run(cth)
            g2 = run(by_name[k])
            if g2 != want:
                primer, got = cname, g2
                break
        out.append((k, primer if primer is not None else 'longer-history(last=%s)' % prev, want, got))
    fresh()
    return state['n'], out

