"""Reference model for C20 (flavour conversion and Waiwera export).

Pure Python, no library import.  Everything here is written from the property statement, the user
documentation (/repo/doc/source/t2data.rst: convert_to_TOUGH2, convert_to_AUTOUGH2, type, json) and the
TOUGH2 / AUTOUGH2 input conventions; the option rules are the ones the converters announce in their own
warnings ("MOP(10)=2: MULKOM rock heat conductivities ...").

Objects are handled in canonical (plain tuple / dict) form, see checks/c20.py canon().
"""

# ---------------------------------------------------------------------------------------------------------
# generator types

# what a TOUGH2 GENER record may carry (TOUGH2 user guide: HEAT, COM1..COMn, WATE, AIR, MASS, DELV);
# types are 4 characters, blank padded on the right as they sit in columns 36-39 of the record
TOUGH2_TYPES = ['HEAT', 'COM1', 'COM2', 'COM3', 'COM4', 'COM5', 'WATE', 'AIR ', 'MASS', 'DELV']

# AUTOUGH2 types with a TOUGH2 equivalent: converted, everything else about the generator unchanged
CONVERTIBLE = {'CO2 ': 'COM2'}

# AUTOUGH2 types TOUGH2 lacks: deleted by the conversion to TOUGH2
AUTOUGH2_ONLY = ['DELG', 'DELS', 'DELT', 'DELW', 'DMAK', 'DMAT', 'TMAK', 'MAKE', 'FEED', 'RECH', 'HLOS',
                 'IMAK', 'FINJ', 'PINJ', 'RINJ', 'XINJ', 'XIN2', 'MASD', 'POWR', 'TOST', 'VOL.', 'WBRE',
                 'WFLO', 'TRAC', 'NACL']

ALL_TYPES = TOUGH2_TYPES + sorted(CONVERTIBLE) + AUTOUGH2_ONLY


def is_tough2_type(t):
    return t in TOUGH2_TYPES or (len(t) == 4 and t.startswith('COM') and t[3].isdigit())


def gen_class(t):
    if is_tough2_type(t):
        return 'tough2'
    if t in CONVERTIBLE:
        return 'convertible'
    return 'autough2-only'


def gen_fields(t):
    """A parameterisation of a generator of type t that is meaningful for the type (so that the
    export does not refuse it for its numbers rather than its type)."""
    f = {'gx': 1.5, 'ex': 2.0e5, 'hg': 0.0, 'fg': 0.0, 'ltab': 0, 'itab': ''}
    if t == 'DELV':
        f.update(gx=1.0e-11, ex=2.0e5, ltab=1)
    elif t in ('DELG', 'DELS', 'DELT', 'DELW', 'DMAK', 'DMAT'):
        f.update(gx=1.0e-11, ex=2.0e5, hg=3.0, fg=5.5e5)
    elif t == 'TMAK':
        f.update(gx=10.0, ex=2.0, hg=-1.0)
    elif t == 'RECH':
        f.update(gx=1.0e-6, ex=8.0e4, hg=2.0e5, fg=1.0)
    elif t in ('IMAK', 'XINJ'):
        f.update(gx=2.0, ex=8.0e4, hg=1.0e5, fg=1.0e-6)
    elif t in ('FINJ', 'PINJ', 'RINJ'):
        f.update(gx=2.0, ex=8.0e4, hg=0.5, fg=0.0)
    elif t == 'MASD':
        f.update(gx=-2.0, ex=1.0e-11, hg=1.0e5, fg=2.0e5)
    elif t == 'HEAT':
        f.update(gx=1000.0, ex=0.0)
    return f


# ---------------------------------------------------------------------------------------------------------
# options (MOP) and linear solver

NUM_MOP = 24
# positions either converter documents as treated (its warnings) - every other position is left alone
CONVERTER_POSITIONS = (10, 12, 14, 16, 17, 20, 21, 22, 23, 24)


def sim_family(simulator):
    s = simulator.strip()
    if s.startswith('AUTOUGH2.2'):
        return 'AUTOUGH2.2'
    if s.startswith('AUTOUGH2'):
        return 'AUTOUGH2'
    if s.startswith('MULKOM'):
        return 'MULKOM'
    if s.startswith('TOUGH2'):
        return 'TOUGH2'
    return 'other'


def options_to_tough2(option, simulator, MP):
    """-> (expected option list (None = don't care), number of MULKOM conductivity reasons).
    option: list of 25 ints, index 0 unused."""
    exp = list(option)
    reasons = []
    # MOP(10)=2: MULKOM rock heat conductivities (AUTOUGH2 only value)
    if option[10] == 2:
        exp[10] = 0
        reasons.append('mop10=2')
    # MOP(12)=2 means something else in TOUGH2
    if option[12] == 2:
        exp[12] = 0
    # MOP(21): TOUGH2 linear solver choice, derived from LINEQ; any valid TOUGH2 value is acceptable
    exp[21] = None
    # MOP(22) USERBC, MOP(23) backward compatibility, MOP(24) initial printout: AUTOUGH2 meanings
    exp[22] = 0
    if option[23] == 1 and sim_family(simulator) in ('AUTOUGH2', 'MULKOM'):
        reasons.append('mop23=1')
    exp[23] = 0
    exp[24] = 0
    if MP:
        for k in (14, 17, 20, 21):
            exp[k] = 0
    return exp, reasons


def options_to_autough2(option, MP):
    exp = list(option)
    if option[12] == 2:
        exp[12] = 0
    exp[22] = 0
    exp[23] = 0
    exp[24] = 0
    exp[21] = None        # not used by AUTOUGH2: don't care
    if MP:
        for k in (14, 17, 20):
            exp[k] = 0
    return exp


TOUGH2_SOLVER_TYPES = (0, 1, 2, 3, 4, 5, 6)          # MOP(21) / SOLVR MATSLV values TOUGH2 defines
AUTOUGH2_LINEQ_TYPES = (1, 2)                        # solver classes the converters distinguish


# ---------------------------------------------------------------------------------------------------------
# sections

AUTOUGH2_ONLY_SECTIONS = ('SIMUL', 'LINEQ', 'SHORT')
TOUGH2_ONLY_SECTIONS = ('SOLVR', 'FOFT', 'COFT', 'GOFT')
SECTION_KEYWORDS = ['SIMUL', 'ROCKS', 'PARAM', 'MOMOP', 'START', 'NOVER', 'RPCAP', 'LINEQ', 'SOLVR', 'MULTI',
                    'TIMES', 'SELEC', 'DIFFU', 'ELEME', 'CONNE', 'MESHM', 'GENER', 'SHORT', 'FOFT', 'COFT',
                    'GOFT', 'INCON', 'INDOM']


def file_sections(text):
    """Top-level keyword records of a written data file, in order.  A data record can begin with the
    same five characters only in the free-text title (first line, skipped) and inside SHORT (its ELEME /
    CONNE / GENER sub-headings), which are told apart by tracking the SHORT block to its blank line."""
    out = []
    lines = text.split('\n')[1:]
    in_short = False
    in_list = None
    for ln in lines:
        key = ln[:5]
        if in_short:
            if not ln.strip():
                in_short = False
            continue
        if in_list is not None:
            # ELEME/CONNE/GENER/INCON/... bodies end at a blank line; their records start with names,
            # which the harness never chooses equal to a keyword
            if not ln.strip():
                in_list = None
            continue
        if key in SECTION_KEYWORDS:
            out.append(key)
            if key == 'SHORT':
                in_short = True
            elif key in ('ROCKS', 'ELEME', 'CONNE', 'GENER', 'FOFT', 'COFT', 'GOFT', 'INCON', 'INDOM'):
                in_list = key
        elif key in ('ENDCY', 'ENDFI'):
            break
    return out


def split_sections(text):
    """-> (title line, [(keyword, [lines])...] top-level sections in file order, [end lines]).  Same tracking as
    file_sections: list sections and SHORT run to their blank line, the others to the next keyword record."""
    lines = text.split('\n')
    title, rest = lines[0], lines[1:]
    chunks, tail = [], []
    cur = None
    mode = None          # None | 'short' | 'list'
    for i, ln in enumerate(rest):
        key = ln[:5]
        if mode is not None:
            cur[1].append(ln)
            if not ln.strip():
                mode = None
            continue
        if key in SECTION_KEYWORDS:
            cur = (key, [ln])
            chunks.append(cur)
            if key == 'SHORT':
                mode = 'short'
            elif key in ('ROCKS', 'ELEME', 'CONNE', 'GENER', 'FOFT', 'COFT', 'GOFT', 'INCON', 'INDOM', 'MESHM'):
                mode = 'list'
        elif key in ('ENDCY', 'ENDFI'):
            tail = rest[i:]
            break
        elif cur is not None:
            cur[1].append(ln)
    return title, chunks, tail


def lift_sections(text, order):
    """The same data file with the sections named in 'order' moved to the top, in that order (after SIMUL when
    there is one: the reader needs the flavour before anything else).  Section order in a TOUGH2 data file is
    free; the orders used keep ROCKS before ELEME before CONNE before the requests that name them."""
    title, chunks, tail = split_sections(text)
    head = [c for c in chunks if c[0] == 'SIMUL']
    lifted = [c for k in order for c in chunks if c[0] == k]
    others = [c for c in chunks if c[0] != 'SIMUL' and c[0] not in order]
    out = [title]
    for k, ls in head + lifted + others:
        out.extend(ls)
    out.extend(tail)
    return '\n'.join(out)


def file_section_body(text, keyword):
    """Lines of the first top-level section 'keyword' up to its blank line (list sections only)."""
    lines = text.split('\n')[1:]
    for i, ln in enumerate(lines):
        if ln[:5] == keyword:
            body = []
            for l2 in lines[i + 1:]:
                if not l2.strip():
                    break
                body.append(l2)
            return body
    return None


def file_record_after(text, keyword):
    lines = text.split('\n')[1:]
    for i, ln in enumerate(lines):
        if ln[:5] == keyword and i + 1 < len(lines):
            return lines[i + 1]
    return None


# ---------------------------------------------------------------------------------------------------------
# history requests  <->  short output

def is_subsequence(small, big):
    it = iter(big)
    return all(any(x == y for y in it) for x in small)


def multiset_leq(a, b):
    b = list(b)
    for x in a:
        if x in b:
            b.remove(x)
        else:
            return False
    return True


# ---------------------------------------------------------------------------------------------------------
# Waiwera export

WAIWERA_EOS = {'W': 'w', 'EW': 'we', 'EWC': 'wce', 'EWAV': 'wae', 'EWT': 'we', 'EWTD': 'we'}
EOS_FROM_INDEX = {1: 'EW', 2: 'EWC', 4: 'EWAV'}      # "only EOS modules 1, 2 and 4 are supported"
SIM_PREFIXES = ['AUTOUGH2', 'AUTOUGH2.2', 'MULKOM', 'TOUGH2', 'TOUGH2.2']   # documented simulator names

# generator types Waiwera has no counterpart for: json() refuses the model, loudly
WAIWERA_UNSUPPORTED = {'CO2 ', 'FEED', 'HLOS', 'MAKE', 'POWR', 'TOST', 'VOL.', 'WBRE', 'WFLO', 'XIN2'}
GROUP_TYPES = {'TMAK'}                               # become network groups, not sources


def is_boundary_volume(v, atmos_volume):
    """json() documentation: blocks with zero volume or volume above atmos_volume are boundary blocks; a
    block of exactly atmos_volume is one too (the default atmosphere volume equals the default limit)."""
    return v == 0.0 or v >= atmos_volume


def expected_partition(block_names, num_atm, volume, rock, rock_names, atmos_volume):
    """block_names: geometry block names in geometry order; volume/rock: dict name -> value.
    -> dict rock name -> sorted cell list."""
    cells = dict((r, []) for r in rock_names)
    for i, b in enumerate(block_names):
        if b in volume and not is_boundary_volume(volume[b], atmos_volume):
            cells[rock[b]].append(i - num_atm)
    return cells
