"""Reference fixed-column record reader / writer, and the two file formats built on it
(MULgraph geometry, TOUGH2 initial conditions).

Everything here is written from the frozen layouts in ref/layout/*.json (taken from the format
documentation, see the 'frozen_from' entries) and from the Fortran edit-descriptor rules in
ref/fortnum.py.  Nothing is imported from the library, and in particular not its format tables.

Two directions, used by the checks so that a write defect and a read defect cannot compensate:

    library-written bytes  -> read_mulgraph / read_incon     -> plain values
    plain values           -> write_mulgraph / write_incon   -> bytes for the library's reader

A record is rendered the way a Fortran program would render it (Aw, Iw, Fw.d, Ew.d / 1PEw.d;
right-justified numbers; optional leading zero dropped when the field is full; exponent letter
dropped for three-digit exponents) and is sliced at the reference columns when read.
"""
import json
import math
import os

from . import fortnum

LAYOUT_DIR = os.path.join(os.path.dirname(os.path.abspath(__file__)), 'layout')


class RefFormatError(Exception):
    """The bytes are not a file of the reference format (the message says where and why)."""


# ---------------------------------------------------------------------------------- layouts

class Field(object):
    __slots__ = ('name', 'kind', 'start', 'end', 'width', 'd')

    def __init__(self, spec):
        self.name = spec['name']
        self.kind = spec['kind']            # A character, I integer, F fixed, E exponent
        self.start = spec['cols'][0] - 1    # 0-based slice
        self.end = spec['cols'][1]
        self.width = self.end - self.start
        self.d = spec.get('d')
        if self.width != spec['len']:
            raise ValueError('layout: field %s: len %r does not match cols %r' % (self.name, spec['len'], spec['cols']))


class Record(object):
    def __init__(self, name, specs):
        self.name = name
        self.fields = [Field(s) for s in specs]
        pos = 0
        for f in self.fields:
            if f.start != pos:
                raise ValueError('layout: record %s: field %s does not abut its predecessor' % (name, f.name))
            pos = f.end
        self.width = pos
        self.by_name = dict((f.name, f) for f in self.fields)


_layout_cache = {}


def load_layout(name):
    """-> (dict record name -> Record, raw json dict)"""
    if name not in _layout_cache:
        with open(os.path.join(LAYOUT_DIR, name + '.json')) as f:
            raw = json.load(f)
        _layout_cache[name] = (dict((r, Record(r, specs)) for r, specs in raw['records'].items()), raw)
    return _layout_cache[name]


# ---------------------------------------------------------------------------------- one record

def slice_record(rec, line):
    """Texts of the fields of one record (line without its end-of-line), each exactly field-wide
    (short lines are blank-extended, as a Fortran formatted read does), plus whatever lies beyond
    the last reference column."""
    s = line.ljust(rec.width)
    return dict((f.name, s[f.start:f.end]) for f in rec.fields), s[rec.width:]


def read_record(rec, line, where='', strict=True):
    """-> dict name -> (value, unit, text).  value: str for A; int or None (blank) for I; float or None
    (blank) for F/E, with unit = one unit of the last printed digit.  Anything a Fortran formatted read
    would reject raises RefFormatError; so does, with strict (the default, for bytes a writer under test
    produced) any non-blank character beyond the last reference column - a Fortran read would silently
    ignore it, which is right for files of foreign origin (strict=False) and hides a spilled record otherwise."""
    texts, extra = slice_record(rec, line)
    if strict and extra.strip():
        raise RefFormatError('%s: record %s: characters beyond column %d: %r' % (where, rec.name, rec.width, line))
    out = {}
    for f in rec.fields:
        t = texts[f.name]
        if f.kind == 'A':
            out[f.name] = (t, None, t)
        elif f.kind == 'I':
            v = fortnum.parse_int(t)
            if v is None:
                raise RefFormatError('%s: record %s: field %s columns %d-%d is not an integer: %r in %r'
                                     % (where, rec.name, f.name, f.start + 1, f.end, t, line))
            out[f.name] = (None if v == 'blank' else v, 1, t)
        else:
            pr = fortnum.parse_real(t)
            if pr is None:
                raise RefFormatError('%s: record %s: field %s columns %d-%d is not a real: %r in %r'
                                     % (where, rec.name, f.name, f.start + 1, f.end, t, line))
            if pr[0] == 'blank':
                out[f.name] = (None, None, t)
            else:
                out[f.name] = (pr[0], pr[1], t)
    return out


def values(recvals):
    return dict((k, v[0]) for k, v in recvals.items())


DEFAULT_STYLE = {'real': 'E0',        # E0: Ew.d (0.ddd)   E1: 1PEw.(d-1) (d.ddd)   E0s: Ew.(d-1), one digit fewer
                 'a_short': 'l',      # a name shorter than its field: 'l' blank-padded on the right (CHARACTER*w
                                      # variable), 'r' right-justified (Aw output of a shorter variable)
                 'trim': False,       # trailing blanks of every record removed
                 'eol': '\n',
                 'keywords': 'long'}  # MULgraph section keywords: long (VERTICES ...) or the five significant letters


def styled(**kw):
    s = dict(DEFAULT_STYLE)
    s.update(kw)
    return s


def render_field(f, v, style):
    if v is None:
        return ' ' * f.width
    if f.kind == 'A':
        s = str(v)
        if len(s) >= f.width:
            return s[:f.width]
        return s.rjust(f.width) if style['a_short'] == 'r' else s.ljust(f.width)
    if f.kind == 'I':
        s = fortnum.render_I(int(v), f.width)
    elif f.kind == 'F':
        s = fortnum.render_F(float(v), f.width, f.d)
    else:
        mode = style['real']
        if mode == 'E0':
            s = fortnum.render_E(float(v), f.width, f.d, scale=0)
        elif mode == 'E1':
            s = fortnum.render_E(float(v), f.width, f.d - 1, scale=1)
        elif mode == 'E0s':
            s = fortnum.render_E(float(v), f.width, f.d - 1, scale=0)
        else:
            raise ValueError(mode)
    if '*' in s:
        raise RefFormatError('value %r does not fit field %s (%s%d.%s)' % (v, f.name, f.kind, f.width, f.d))
    return s


def render_record(rec, vals, style=DEFAULT_STYLE):
    """vals: dict name -> value (missing / None = blank field).  One record without end-of-line."""
    s = ''.join(render_field(f, vals.get(f.name), style) for f in rec.fields)
    return s.rstrip(' ') if style['trim'] else s


def half_unit(kind, d, v):
    """Half a unit of the last digit the reference layout guarantees for value v in a field of this kind
    (F: d decimals; E: d significant digits) - the representation tolerance of a round trip."""
    if kind == 'F':
        return 0.5 * 10.0 ** (-d)
    if v == 0 or v != v or v in (float('inf'), float('-inf')):
        return 0.0
    e = math.floor(math.log10(abs(v)))
    # guard against log10 landing one short at exact powers of ten
    if 10.0 ** (e + 1) <= abs(v):
        e += 1
    return 0.5 * 10.0 ** (e - d + 1)


def name_matches(text, name, width):
    """A name as it must appear in a file field: exactly, when it fills the field; otherwise blank-extended
    on either side (both are what Fortran programs produce for a shorter CHARACTER variable)."""
    if len(text) != width:
        return False
    if len(name) >= width:
        return text == name[:width]
    return text.strip(' ') == name.strip(' ') and (text == name.ljust(width) or text == name.rjust(width))


def split_lines(text):
    """Records of a file: '\\n' or '\\r\\n' ends a record; a final '\\x1a' (DOS end of file) is dropped."""
    lines = text.split('\n')
    if lines and lines[-1] == '':
        lines.pop()
    out = []
    for ln in lines:
        if ln.endswith('\r'):
            ln = ln[:-1]
        out.append(ln)
    while out and out[-1].strip(' ') in ('\x1a',):
        out.pop()
    return out


# ---------------------------------------------------------------------------------- MULgraph geometry

MUL_SECTIONS = ['node', 'column', 'connection', 'layer', 'surface', 'well']
MUL_LONG = {'node': 'VERTICES', 'column': 'GRID', 'connection': 'CONNECTIONS', 'layer': 'LAYERS',
            'surface': 'SURFA', 'well': 'WELLS'}


def read_mulgraph(text, strict=True):
    """Reference reader.  -> dict
        header: name -> (value, unit, text)
        unit_scale: 1.0, or 0.3048 when the header carries FEET
        nodes [(nametext, (x,ux), (y,uy))], columns [(nametext, centre_specified, [node nametexts], cx, cy)]
        connections [(t1, t2)], layers [(nametext, bottom, centre)], surface [(nametext, elev)],
        wells [(nametext, x, y, z)] one entry per track point in file order
        order: the section kinds in the order met
    Real values are (value, unit) pairs, (None, None) when blank.  Values are in FILE units."""
    recs, raw = load_layout('mulgraph')
    kw = dict((v, k) for k, v in raw['keywords'].items())
    lines = split_lines(text)
    if not lines:
        raise RefFormatError('empty file')
    out = {'nodes': [], 'columns': [], 'connections': [], 'layers': [], 'surface': [], 'wells': [], 'order': []}
    hdr = read_record(recs['header'], lines[0], 'line 1', strict)
    out['header'] = hdr
    unit = hdr['unit'][0].strip(' ')
    if unit == '':
        out['unit_scale'] = 1.0
    elif unit == 'FEET':
        out['unit_scale'] = raw['feet_in_metres']
    else:
        raise RefFormatError('line 1: length unit field columns 28-32 holds %r (blank or FEET expected)' % hdr['unit'][0])
    out['unit'] = unit
    i = 1
    n = len(lines)

    def real(rv, k):
        return (rv[k][0], rv[k][1])

    while i < n:
        line = lines[i]
        if not line.strip(' '):
            i += 1
            # blank record after the last section: nothing but blank records may follow
            if any(l.strip(' ') for l in lines[i:]):
                raise RefFormatError('line %d: blank record where a section keyword is expected, but records follow' % i)
            break
        key = line[0:5].rstrip(' ')
        if key not in kw:
            raise RefFormatError('line %d: unknown section keyword %r' % (i + 1, line))
        kind = kw[key]
        if kind in out['order']:
            raise RefFormatError('line %d: section %s occurs twice' % (i + 1, key))
        out['order'].append(kind)
        i += 1
        closed = False
        while i < n:
            line = lines[i]
            where = 'line %d' % (i + 1)
            if not line.strip(' '):
                i += 1
                closed = True
                break
            if kind == 'node':
                rv = read_record(recs['node'], line, where, strict)
                out['nodes'].append((rv['name'][0], real(rv, 'x'), real(rv, 'y')))
                i += 1
            elif kind == 'column':
                rv = read_record(recs['column'], line, where, strict)
                nn = rv['num_nodes'][0]
                if nn is None or nn < 0:
                    raise RefFormatError('%s: column record without a number of vertices: %r' % (where, line))
                names = []
                for k in range(nn):
                    i += 1
                    if i >= n or not lines[i].strip(' '):
                        raise RefFormatError('line %d: column %r announces %d vertices, %d found'
                                             % (i + 1, rv['name'][0], nn, k))
                    cv = read_record(recs['column_node'], lines[i], 'line %d' % (i + 1), strict)
                    names.append(cv['name'][0])
                out['columns'].append((rv['name'][0], rv['centre_specified'][0], names,
                                       real(rv, 'xcentre'), real(rv, 'ycentre')))
                i += 1
            elif kind == 'connection':
                rv = read_record(recs['connection'], line, where, strict)
                out['connections'].append((rv['name1'][0], rv['name2'][0]))
                i += 1
            elif kind == 'layer':
                rv = read_record(recs['layer'], line, where, strict)
                out['layers'].append((rv['name'][0], real(rv, 'bottom'), real(rv, 'centre')))
                i += 1
            elif kind == 'surface':
                rv = read_record(recs['surface'], line, where, strict)
                out['surface'].append((rv['name'][0], real(rv, 'elevation')))
                i += 1
            else:
                rv = read_record(recs['well'], line, where, strict)
                out['wells'].append((rv['name'][0], real(rv, 'x'), real(rv, 'y'), real(rv, 'z')))
                i += 1
        if not closed:
            raise RefFormatError('section %s is not closed by a blank record' % key)
    return out


def write_mulgraph(g, style=DEFAULT_STYLE):
    """Reference writer.  g: plain description, every length already in FILE units:
        header {type, convention, atmosphere_type, atmosphere_volume, atmosphere_connection, unit ('' or 'FEET'),
                gdcx, gdcy, cntype, permeability_angle, block_order (None, 0, 1)}   (missing / None = blank)
        nodes [(name, x, y)], columns [(name, centre_specified, [node names], cx or None, cy or None)],
        connections [(n1, n2)], layers [(name, bottom, centre)], surface [(name, elev)] or [],
        wells [(name, [(x, y, z), ...])] or []
    -> text."""
    recs, raw = load_layout('mulgraph')
    eol = style['eol']
    L = []

    def kwline(kind):
        L.append(MUL_LONG[kind] if style['keywords'] == 'long' else raw['keywords'][kind])

    L.append(render_record(recs['header'], g['header'], style))
    kwline('node')
    for name, x, y in g['nodes']:
        L.append(render_record(recs['node'], {'name': name, 'x': x, 'y': y}, style))
    L.append('')
    kwline('column')
    for name, cs, nodes, cx, cy in g['columns']:
        L.append(render_record(recs['column'], {'name': name, 'centre_specified': cs, 'num_nodes': len(nodes),
                                                'xcentre': cx, 'ycentre': cy}, style))
        for nn in nodes:
            L.append(render_record(recs['column_node'], {'name': nn}, style))
    L.append('')
    kwline('connection')
    for n1, n2 in g['connections']:
        L.append(render_record(recs['connection'], {'name1': n1, 'name2': n2}, style))
    L.append('')
    kwline('layer')
    for name, b, c in g['layers']:
        L.append(render_record(recs['layer'], {'name': name, 'bottom': b, 'centre': c}, style))
    L.append('')
    if g.get('surface'):
        kwline('surface')
        for name, e in g['surface']:
            L.append(render_record(recs['surface'], {'name': name, 'elevation': e}, style))
        L.append('')
    if g.get('wells'):
        kwline('well')
        for name, track in g['wells']:
            for x, y, z in track:
                L.append(render_record(recs['well'], {'name': name, 'x': x, 'y': y, 'z': z}, style))
        L.append('')
    L.append('')
    return eol.join(L) + eol


# ---------------------------------------------------------------------------------- initial conditions

def read_incon(text, num_variables, toughreact=None, strict=True):
    """Reference reader of an initial conditions file, the way the simulator reads it: it KNOWS the number
    of primary variables (num_variables; from the EOS), reads ceil(n/4) records of four per element and
    insists that exactly the first n value fields are filled.
    toughreact: None = decide per element record from columns 31-75 (filled or blank); True/False = insist.
    -> dict header {'kind': 'short'|'long', 'nele', 'sumtim', 'text'},
            blocks [ {name (5 chars as in the file), nseq, nadd, porosity (v,u), permeability [(v,u)]*3 or None,
                      variables [(v,u)]} ],
            end 'blank' | '+++' | 'eof', timing {kcyc, iter, nm, tstart (v,u), sumtim (v,u)} or None,
            timing_layout 'timing' | 'timing_toughreact' | None"""
    recs, raw = load_layout('incon')
    per = raw['values_per_record']
    lines = split_lines(text)
    if not lines:
        raise RefFormatError('empty file')
    out = {'blocks': [], 'timing': None, 'timing_layout': None}
    h = lines[0]
    if not h.startswith('INCON'):
        raise RefFormatError('line 1: does not begin with INCON: %r' % h)
    if h.rstrip(' ') == 'INCON':
        out['header'] = {'kind': 'short', 'text': h}
    else:
        hv = read_record(recs['header_long'], h, 'line 1', strict)
        out['header'] = {'kind': 'long', 'text': h, 'text1': hv['text1'][0], 'text2': hv['text2'][0],
                         'nele': hv['nele'][0], 'sumtim': (hv['sumtim'][0], hv['sumtim'][1])}
    i, n = 1, len(lines)
    nrec = (num_variables + per - 1) // per
    end = 'eof'
    any_perm = False
    while i < n:
        line = lines[i]
        if not line.strip(' '):
            end = 'blank'
            i += 1
            break
        if line.startswith(raw['end_marker']):
            end = '+++'
            i += 1
            break
        where = 'line %d' % (i + 1)
        rv = read_record(recs['incon1_toughreact'], line, where, strict)
        ks = [rv[k] for k in ('k1', 'k2', 'k3')]
        nk = sum(1 for k in ks if k[0] is not None)
        if nk not in (0, 3):
            raise RefFormatError('%s: %d of 3 permeability fields filled: %r' % (where, nk, line))
        if toughreact is True and nk != 3:
            raise RefFormatError('%s: TOUGHREACT element record without permeabilities: %r' % (where, line))
        if toughreact is False and nk != 0:
            raise RefFormatError('%s: characters in columns 31-75 of a TOUGH2 element record: %r' % (where, line))
        any_perm = any_perm or nk == 3
        blk = {'name': rv['name'][0], 'nseq': rv['nseq'][0], 'nadd': rv['nadd'][0],
               'porosity': (rv['porx'][0], rv['porx'][1]),
               'permeability': [(k[0], k[1]) for k in ks] if nk == 3 else None, 'variables': []}
        i += 1
        left = num_variables
        for r in range(nrec):
            if i >= n:
                raise RefFormatError('end of file inside the variables of element %r' % blk['name'])
            vv = read_record(recs['incon2'], lines[i], 'line %d' % (i + 1), strict)
            want = min(per, left)
            for k in range(per):
                v = vv['x%d' % (k + 1)]
                if k < want:
                    if v[0] is None:
                        raise RefFormatError('line %d: element %r: value %d of %d is blank (%d values per record): %r'
                                             % (i + 1, blk['name'], num_variables - left + k + 1, num_variables,
                                                per, lines[i]))
                    blk['variables'].append((v[0], v[1]))
                elif v[0] is not None:
                    raise RefFormatError('line %d: element %r: more than %d values: %r'
                                         % (i + 1, blk['name'], num_variables, lines[i]))
            left -= want
            i += 1
        out['blocks'].append(blk)
    out['end'] = end
    out['toughreact'] = any_perm
    if end == '+++':
        if i < n and lines[i].strip(' '):
            lay = 'timing_toughreact' if any_perm else 'timing'
            tv = read_record(recs[lay], lines[i], 'line %d' % (i + 1), strict)
            out['timing'] = {'kcyc': tv['kcyc'][0], 'iter': tv['iter'][0], 'nm': tv['nm'][0],
                             'tstart': (tv['tstart'][0], tv['tstart'][1]),
                             'sumtim': (tv['sumtim'][0], tv['sumtim'][1])}
            out['timing_layout'] = lay
            i += 1
    if any(l.strip(' ') for l in lines[i:]):
        raise RefFormatError('line %d: records after the end of the block: %r' % (i + 1, lines[i:i + 3]))
    return out


def write_incon(inc, style=DEFAULT_STYLE):
    """Reference writer.  inc: {blocks: [{name (5 chars, as the simulator prints it), nseq, nadd, porosity,
    permeability (3 values or None), variables [...]}], timing {kcyc, iter, nm, tstart, sumtim} or None,
    toughreact bool}.  A SAVE-style file (long header, '+++' and restart record) when timing is given, else
    an INCON block closed by a blank record."""
    recs, raw = load_layout('incon')
    per = raw['values_per_record']
    eol = style['eol']
    L = []
    timing = inc.get('timing')
    if timing is None:
        L.append('INCON')
    else:
        hs = dict(style)
        hs['trim'] = False
        L.append(render_record(recs['header_long'], {'text1': 'INCON -- INITIAL CONDITIONS FOR',
                                                     'nele': len(inc['blocks']), 'text2': ' ELEMENTS AT TIME  ',
                                                     'sumtim': timing['sumtim']}, hs))
    for b in inc['blocks']:
        vals = {'name': b['name'], 'nseq': b.get('nseq'), 'nadd': b.get('nadd'), 'porx': b.get('porosity')}
        if b.get('permeability') is not None:
            vals.update(zip(('k1', 'k2', 'k3'), b['permeability']))
            L.append(render_record(recs['incon1_toughreact'], vals, style))
        else:
            L.append(render_record(recs['incon1'], vals, style))
        v = list(b['variables'])
        for k in range(0, len(v), per):
            L.append(render_record(recs['incon2'], dict(('x%d' % (j + 1), x) for j, x in enumerate(v[k:k + per])),
                                   style))
    if timing is None:
        L.append('')
        L.append('')
    else:
        L.append(raw['end_marker'])
        lay = 'timing_toughreact' if inc.get('toughreact') else 'timing'
        L.append(render_record(recs[lay], timing, style))
    return eol.join(L) + eol
