"""Brute-force reference for mapping the blocks of one layered/columnar geometry onto another (C19).

A geometry is reduced to plain data:
  columns : list of (name, (x, y) centre, surface elevation)
  layers  : list of (name, centre elevation, bottom elevation) of the subsurface layers, top first
Nothing here uses a search structure: every distance is computed.

The image of a target block (column T, layer U) in a source geometry is, by the property statement,
  column = a source column whose centre is nearest to T's centre           (ties: any of them)
  layer  = a source layer whose centre is nearest to U's centre            (ties: any of them)
  and when that source block would be above ground (column surface <= layer bottom), the source column's
  first layer below ground (the first layer, from the top, whose bottom is below the column surface).
"""
import math

TIE = 1e-9


def nearest_indices(dists, scale):
    """Indices within the tie band of the smallest distance."""
    dmin = min(dists)
    band = TIE * max(scale, 1.0)
    return [k for k, d in enumerate(dists) if d <= dmin + band]


def nearest_columns(centre, columns, scale):
    d = [math.hypot(c[1][0] - centre[0], c[1][1] - centre[1]) for c in columns]
    return nearest_indices(d, scale)


def nearest_layers(zc, layers, scale):
    d = [abs(l[1] - zc) for l in layers]
    return nearest_indices(d, scale)


def surface_layer(column, layers):
    """Index of the first layer (from the top) that has part of the column in it."""
    for k, l in enumerate(layers):
        if l[2] < column[2]:
            return k
    return None


def combine(cols, lays, columns, layers):
    """Acceptable (layer index, column index) images given the nearest column and layer indices."""
    out = set()
    for c in cols:
        for l in lays:
            if columns[c][2] <= layers[l][2]:          # above ground in this column
                s = surface_layer(columns[c], layers)
                if s is not None:
                    out.add((s, c))
            else:
                out.add((l, c))
    return out


def images(tcentre, tz, columns, layers, scale_xy, scale_z):
    """All acceptable (layer index, column index) images of a target block."""
    return combine(nearest_columns(tcentre, columns, scale_xy), nearest_layers(tz, layers, scale_z), columns, layers)


class Mapper(object):
    """images() for the blocks of one target geometry, the nearest sets computed once per column and layer."""

    def __init__(self, tcols, tlays, columns, layers, scale_xy, scale_z):
        self.tcols, self.tlays, self.columns, self.layers = tcols, tlays, columns, layers
        self.sxy, self.sz = scale_xy, scale_z
        self._c, self._l, self._i = {}, {}, {}

    def near_columns(self, ci):
        if ci not in self._c:
            self._c[ci] = nearest_columns(self.tcols[ci][1], self.columns, self.sxy)
        return self._c[ci]

    def near_layers(self, li):
        if li not in self._l:
            self._l[li] = nearest_layers(self.tlays[li][1], self.layers, self.sz)
        return self._l[li]

    def images(self, li, ci):
        key = (li, ci)
        if key not in self._i:
            self._i[key] = combine(self.near_columns(ci), self.near_layers(li), self.columns, self.layers)
        return self._i[key]


def mean_vectors(vectors):
    n = len(vectors)
    return [math.fsum(v[k] for v in vectors) / n for k in range(len(vectors[0]))]
