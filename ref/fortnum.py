"""Reference grammar of numbers as a Fortran program prints and reads them.

Written from the Fortran edit-descriptor rules (Ew.d, Dw.d, 1PEw.d, Fw.d, Iw), not from the
library's fallback cascade.  Values are obtained by exact decimal -> nearest double conversion
(Python's float() of a normalised literal), so there is no rounding of our own.
"""
import re
from decimal import Decimal

# mantissa: digits with an optional point (at least one digit somewhere);
# exponent: letter + optional sign + digits, or a bare sign + digits (letter dropped when the
# exponent needs three digits).
_REAL = re.compile(r'^([+-]?)(\d*)(?:\.(\d*))?(?:[eEdD]([+-]?)(\d+)|([+-])(\d+))?$')
_INT = re.compile(r'^[+-]?\d+$')


def parse_real(text):
    """-> (value, unit_of_last_printed_digit) for Fortran-readable text, None for anything else.
    Blanks anywhere in the field are ignored (BN editing, the default for formatted reads of
    files written by the same program); an all-blank field is returned as ('blank', None)."""
    s = text.replace(' ', '')
    if not s:
        return ('blank', None)
    m = _REAL.match(s)
    if not m:
        return None
    sign, ip, fp, es1, e1, es2, e2 = m.groups()
    ip = ip or ''
    has_point = fp is not None
    fp = fp or ''
    if not ip and not fp:
        return None
    if e1 is not None:
        ex = int((es1 or '') + e1)
    elif e2 is not None:
        ex = int(es2 + e2)
    else:
        ex = 0
    lit = '%s%s.%se%d' % (sign, ip or '0', fp or '0', ex)
    try:
        val = float(lit)
    except (ValueError, OverflowError):
        return None
    try:
        unit = float('1e%d' % (ex - len(fp)))
    except OverflowError:
        unit = float('inf')
    return (val, unit)


def parse_int(text):
    s = text.replace(' ', '')
    if not s:
        return 'blank'
    if _INT.match(s):
        return int(s)
    return None


def _digits(value, nsig):
    """(sign, digit string of nsig digits, decimal exponent e) with |value| = 0.d1d2... * 10**e,
    correctly rounded (half-even on the exact binary value, as glibc/gfortran do)."""
    d = Decimal(value)
    sign = '-' if d < 0 or (value == 0 and str(value).startswith('-')) else ''
    d = abs(d)
    if d == 0:
        return sign, '0' * nsig, 0
    e = d.adjusted() + 1
    q = (d.scaleb(nsig - e)).to_integral_value()
    s = str(int(q))
    if len(s) > nsig:            # rounding carried into a new digit
        s = s[:nsig]
        e += 1
    return sign, s.rjust(nsig, '0'), e


def render_E(value, w, d, letter='E', scale=0, plus=False, lead_zero=True, exp_blank_plus=False,
             drop_letter_3=True):
    """Fortran Ew.d (scale=0: 0.ddddE+ee) or 1PEw.d (scale=1: d.dddE+ee) rendering, right-justified in
    width w; asterisks when it does not fit.  Options cover the legal variations between compilers:
    optional leading zero, optional '+', blank for '+' in the exponent, exponent letter dropped for
    three-digit exponents."""
    if scale == 0:
        sign, digs, e = _digits(value, d)
        mant = ('0' if lead_zero else '') + '.' + digs
        ex = e if any(c != '0' for c in digs) else 0
    else:
        sign, digs, e = _digits(value, d + 1)
        mant = digs[0] + '.' + digs[1:]
        ex = e - 1 if any(c != '0' for c in digs) else 0
    if plus and not sign:
        sign = '+'
    es = '-' if ex < 0 else ('+' if not exp_blank_plus else ' ')
    if abs(ex) > 99:
        if drop_letter_3:
            expo = '%s%03d' % ('-' if ex < 0 else '+', abs(ex))
        else:
            expo = '%s%s%03d' % (letter, es, abs(ex))
    else:
        expo = '%s%s%02d' % (letter, es, abs(ex))
    s = sign + mant + expo
    if len(s) > w and lead_zero and scale == 0:
        s = sign + mant[1:] + expo
    if len(s) > w:
        return '*' * w
    return s.rjust(w)


def render_F(value, w, d, plus=False, lead_zero=True):
    q = Decimal(value).quantize(Decimal(1).scaleb(-d)) if d > 0 else Decimal(value).to_integral_value()
    neg = q < 0 or (q == 0 and value < 0 and False)
    a = abs(q)
    s = format(a, 'f')
    if d == 0:
        s += '.'
    if not lead_zero and s.startswith('0.') and d > 0:
        s = s[1:]
    s = ('-' if neg else ('+' if plus else '')) + s
    if len(s) > w and s.lstrip('+-').startswith('0.') and d > 0:
        s = s.replace('0.', '.', 1)
    if len(s) > w:
        return '*' * w
    return s.rjust(w)


def render_I(value, w, plus=False):
    s = ('+' if plus and value >= 0 else '') + str(value)
    if len(s) > w:
        return '*' * w
    return s.rjust(w)
