"""Reference model of a rotated, translated rectangular MULgraph geometry (C18).

Pure arithmetic, written from the documentation of mulgrid.rectangular / rotate ("degrees clockwise") /
translate and of the permeability angle ("anticlockwise from x to permeability direction 1"):

* a case is block sizes dx[0..nx), dy[0..ny), dz[0..nz) (dz from the top down), a clockwise rotation a about
  (0, 0) followed by a shift (ox, oy, oz), and one surface code per column;
* direction 1 of the grid is the image of the x axis, e1 = (cos a, -sin a); direction 2 is e2 = (sin a, cos a);
* column (i, j) (i along direction 1) is the rectangle with corner  O + X[i] e1 + Y[j] e2  and sides dx[i], dy[j],
  X, Y the cumulative sums; real layer L (0 = top) lies between  oz - Z[L]  and  oz - Z[L+1];
* a surface code [L, q] puts the column's surface at  bottom(L) + q/4 * dz[L]  (q = 4: the top of layer L).
"""
import math

PATTERNS = ('u', 'i', 't', 'g')


def spacing(pattern, n, base):
    """'u' uniform, 'i' increasing by 30 % of the base per cell, 't' uniform with one thin cell (a quarter)
    at index 1 (index 0 when there are fewer than 3 cells would make the top layer thin - kept at index 1,
    and a single cell is never thin)."""
    if pattern == 'u' or n == 1:
        return [float(base)] * n
    if pattern == 'i':
        return [base * (1.0 + 0.3 * k) for k in range(n)]
    if pattern == 't':
        return [base * (0.25 if k == 1 else 1.0) for k in range(n)]
    if pattern == 'g':                       # geometric growth (the shipped test's logspace shape)
        return [base * 1.25 ** k for k in range(n)]
    raise ValueError(pattern)


def cum(v):
    out = [0.0]
    for x in v:
        out.append(out[-1] + x)
    return out


class Model(object):
    def __init__(self, dx, dy, dz, angle, shift, surf):
        self.dx, self.dy, self.dz = list(dx), list(dy), list(dz)
        self.nx, self.ny, self.nz = len(dx), len(dy), len(dz)
        self.angle = angle
        a = math.radians(angle)
        self.e1 = (math.cos(a), -math.sin(a))
        self.e2 = (math.sin(a), math.cos(a))
        self.O = (float(shift[0]), float(shift[1]))
        self.oz = float(shift[2])
        self.X, self.Y, self.Z = cum(dx), cum(dy), cum(dz)
        self.surf = [list(s) for s in surf]          # index j * nx + i
        self.perm_angle = -angle

    def point(self, u, v):
        return (self.O[0] + u * self.e1[0] + v * self.e2[0], self.O[1] + u * self.e1[1] + v * self.e2[1])

    def corners(self, i, j):
        return [self.point(self.X[i], self.Y[j]), self.point(self.X[i], self.Y[j + 1]),
                self.point(self.X[i + 1], self.Y[j + 1]), self.point(self.X[i + 1], self.Y[j])]

    def centre(self, i, j):
        return self.point(0.5 * (self.X[i] + self.X[i + 1]), 0.5 * (self.Y[j] + self.Y[j + 1]))

    def layer_top(self, L):
        return self.oz - self.Z[L]

    def layer_bottom(self, L):
        return self.oz - self.Z[L + 1]

    def surface(self, i, j):
        L, q = self.surf[j * self.nx + i]
        return self.layer_bottom(L) + 0.25 * q * self.dz[L]

    def area(self, i, j):
        return self.dx[i] * self.dy[j]

    def uv(self, p):
        """Coordinates of a point along directions 1 and 2, from the origin corner."""
        x, y = p[0] - self.O[0], p[1] - self.O[1]
        return (x * self.e1[0] + y * self.e1[1], x * self.e2[0] + y * self.e2[1])

    def locate(self, p):
        """(i, j) of the column whose rectangle contains p (None outside)."""
        u, v = self.uv(p)
        i = j = None
        for k in range(self.nx):
            if self.X[k] <= u <= self.X[k + 1]:
                i = k
                break
        for k in range(self.ny):
            if self.Y[k] <= v <= self.Y[k + 1]:
                j = k
                break
        return None if i is None or j is None else (i, j)

    def extent(self):
        return math.hypot(self.X[-1], self.Y[-1])

    def coord_scale(self):
        m = 1.0
        for u in (0.0, self.X[-1]):
            for v in (0.0, self.Y[-1]):
                p = self.point(u, v)
                m = max(m, abs(p[0]), abs(p[1]))
        return max(m, abs(self.oz), abs(self.oz - self.Z[-1]))


def angle_diff(a, b):
    """|a - b| modulo 360, in [0, 180]; nan when either is nan."""
    d = (a - b) % 360.0
    return min(d, 360.0 - d) if d == d else float('nan')
