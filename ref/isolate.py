"""Run a function in a forked child and hand back its (picklable) result.

Used by the order-independence passes of the checks: what a case shows must not depend on what ran before it in
the process, and the pass that deliberately runs "primer" cases first must not itself contaminate the worker that
goes on to other units.  The child inherits the imported library, runs, pickles its result into a pipe and leaves
with os._exit (no atexit handlers, no pool machinery)."""
import os
import pickle
import traceback


class ChildFailed(Exception):
    pass


def isolated(fn, *args):
    r, w = os.pipe()
    pid = os.fork()
    if pid == 0:
        code = 0
        try:
            os.close(r)
            try:
                data = pickle.dumps(('ok', fn(*args)))
            except BaseException:
                data = pickle.dumps(('err', traceback.format_exc()))
            with os.fdopen(w, 'wb') as f:
                f.write(data)
        except BaseException:
            code = 1
        finally:
            os._exit(code)
    os.close(w)
    with os.fdopen(r, 'rb') as f:
        data = f.read()
    os.waitpid(pid, 0)
    if not data:
        raise ChildFailed('child process returned nothing')
    kind, res = pickle.loads(data)
    if kind != 'ok':
        raise ChildFailed(res)
    return res
