"""Inputs for the geometry constructors other than rectangular() (used by C17): a rectangular nx x ny plan mesh of
10 m squares written as a gmsh 2.2 file, a gmsh 4.1 file, a pair of AMESH files (input with 'locat' block + segment
file), and a duck-typed Layermesh mesh object.  Nodes are numbered 1..(nx+1)(ny+1) row by row, cells 1..nx*ny row by
row, so the reference knows how many names each constructor needs.  Written from the file format descriptions
(gmsh MSH 2.2 / 4.1 ASCII; AMESH 'locat' records name, layer index, x, y, z, thickness; segment records x1 y1 x2 y2 in
four 15-column fields, an index in columns 61-63, the two block names in columns 66-70 and 71-75, '*' marking the
outside).
"""
import os

import numpy as np

D = 10.0


def node_xy(nx, ny):
    return [(i * D, j * D) for j in range(ny + 1) for i in range(nx + 1)]


def cell_nodes(nx, ny):
    """Node numbers (1-based) of each cell, anticlockwise."""
    out = []
    for j in range(ny):
        for i in range(nx):
            a = j * (nx + 1) + i + 1
            out.append((a, a + 1, a + nx + 2, a + nx + 1))
    return out


def boundary_edges(nx, ny):
    return [(i + 1, i + 2) for i in range(nx)]          # the bottom side, as 1-D line elements


def write_gmsh22(path, nx, ny):
    xy, cells, lines = node_xy(nx, ny), cell_nodes(nx, ny), boundary_edges(nx, ny)
    out = ['$MeshFormat', '2.2 0 8', '$EndMeshFormat', '$Nodes', str(len(xy))]
    out += ['%d %r %r 0' % (k + 1, x, y) for k, (x, y) in enumerate(xy)]
    out += ['$EndNodes', '$Elements', str(len(cells) + len(lines))]
    out += ['%d 3 2 0 1 %d %d %d %d' % ((k + 1,) + c) for k, c in enumerate(cells)]
    out += ['%d 1 2 0 1 %d %d' % (len(cells) + k + 1, a, b) for k, (a, b) in enumerate(lines)]
    out += ['$EndElements', '']
    with open(path, 'w') as f:
        f.write('\n'.join(out))


def write_gmsh41(path, nx, ny):
    xy, cells, lines = node_xy(nx, ny), cell_nodes(nx, ny), boundary_edges(nx, ny)
    nn, nc, nl = len(xy), len(cells), len(lines)
    out = ['$MeshFormat', '4.1 0 8', '$EndMeshFormat', '$Nodes', '1 %d 1 %d' % (nn, nn), '2 1 0 %d' % nn]
    out += [str(k + 1) for k in range(nn)]
    out += ['%r %r 0' % (x, y) for x, y in xy]
    out += ['$EndNodes', '$Elements', '2 %d 1 %d' % (nc + nl, nc + nl), '1 1 1 %d' % nl]
    out += ['%d %d %d' % (nc + k + 1, a, b) for k, (a, b) in enumerate(lines)]
    out += ['2 1 3 %d' % nc]
    out += ['%d %d %d %d %d' % ((k + 1,) + c) for k, c in enumerate(cells)]
    out += ['$EndElements', '']
    with open(path, 'w') as f:
        f.write('\n'.join(out))


def amesh_block_name(layer, cell):
    return '%5d' % (layer * 1000 + cell + 1)


def write_amesh(dirpath, nx, ny, nz, thickness=5.0, tag='c17'):
    """-> (input file, segment file)."""
    inp, seg = os.path.join(dirpath, tag + '_amesh_in'), os.path.join(dirpath, tag + '_amesh_segmt')
    xy, cells = node_xy(nx, ny), cell_nodes(nx, ny)
    rows = ['locat']
    for lay in range(1, nz + 1):
        z = -thickness * (lay - 0.5)
        for k, c in enumerate(cells):
            cx = sum(xy[n - 1][0] for n in c) / 4.0
            cy = sum(xy[n - 1][1] for n in c) / 4.0
            rows.append('%s %2d %20.10E %20.10E %20.10E %20.10E' % (amesh_block_name(lay, k), lay, cx, cy, z, thickness))
    rows += ['', 'toler', '  1.e-8', '']
    with open(inp, 'w') as f:
        f.write('\n'.join(rows))
    owner = {}
    for k, c in enumerate(cells):
        for e in range(4):
            owner[(c[e], c[(e + 1) % 4])] = k
    srows = []
    for k, c in enumerate(cells):
        for e in range(4):
            a, b = c[e], c[(e + 1) % 4]
            other = owner.get((b, a))
            n1 = amesh_block_name(nz, k)
            n2 = amesh_block_name(nz, other) if other is not None else '*%4d' % (k + 1)
            (x1, y1), (x2, y2) = xy[a - 1], xy[b - 1]
            srows.append('%15.6f%15.6f%15.6f%15.6f%3d  %s%s' % (x1, y1, x2, y2, 1, n1, n2))
    with open(seg, 'w') as f:
        f.write('\n'.join(srows) + '\n')
    return inp, seg


class _Obj(object):
    pass


def fake_layermesh(nx, ny, nz, thickness=5.0):
    """An object with the attributes mulgrid.from_layermesh() reads from a Layermesh mesh."""
    mesh = _Obj()
    mesh.node = []
    for k, (x, y) in enumerate(node_xy(nx, ny)):
        n = _Obj()
        n.index, n.pos = k, np.array([x, y])
        mesh.node.append(n)
    mesh.layer = []
    for k in range(nz):
        lay = _Obj()
        lay.thickness, lay.top, lay.bottom = thickness, -thickness * k, -thickness * (k + 1)
        mesh.layer.append(lay)
    mesh.column = []
    for k, c in enumerate(cell_nodes(nx, ny)):
        col = _Obj()
        col.index = k
        col.node = [mesh.node[n - 1] for n in c]
        col.centre = sum(n.pos for n in col.node) / 4.0
        col.surface = 0.0
        mesh.column.append(col)
    return mesh
