"""Reference side of C16 (Fortran number readers): enumerators of the input spaces and the oracle.

Nothing here looks at the library.  The oracle is the property statement:

  blank field                      -> the caller's blank value (the very object)
  text Python's float()/int() reads -> the same result
  text a Fortran READ understands   -> the reference value (ref/fortnum.parse_real / parse_int); asserted only on
                                      the forms the statement names: D/d means E, a signed three-digit exponent
                                      without its letter after a mantissa that has a point, blanks anywhere
  text with a character that cannot occur in a number -> NaN (reals) / None (integers)
  everything else                   -> don't care (any float or None; any int or None) - DESIGN 4.1
  never an exception.
"""
import itertools
import math
import re

from ref import fortnum

ALPHABET = '019.+-eEdD *anif_x'          # the 18 letters of DESIGN section 6 / C16
assert len(ALPHABET) == 18 and len(set(ALPHABET)) == 18
PRINTABLE = ''.join(chr(c) for c in range(32, 127))      # 95 printable ASCII characters

# characters that can occur in text one of the readers may legitimately understand: digits, signs, point,
# exponent letters, blank, Python's digit-grouping underscore and the letters of inf / nan / infinity
NUMBER_CHARS = frozenset('0123456789+-.eEdD _' + 'infatyINFATY')

_STRICT_REAL = re.compile(r'^[+-]?(?:\d+\.?\d*|\.\d+)(?:[eEdD][+-]?\d+)?$')
_STRICT_REAL_NOLETTER = re.compile(r'^[+-]?(?:\d+\.\d*|\.\d+)[+-]\d{3}$')
_STRICT_INT = re.compile(r'^[+-]?\d+$')

BLANK, VAL, NAN, NONE, ANY = 'blank', 'val', 'nan', 'none', 'any'


def expect_real(s):
    """-> (class, value).  class in BLANK / VAL / NAN / ANY."""
    t = s.replace(' ', '')
    if not t:
        return (BLANK, None)
    try:
        return (VAL, float(s))
    except ValueError:
        pass
    for c in s:
        if c not in NUMBER_CHARS:
            return (NAN, None)
    if _STRICT_REAL.match(t) or _STRICT_REAL_NOLETTER.match(t):
        pr = fortnum.parse_real(t)
        if pr is not None and pr[0] != 'blank':
            return (VAL, pr[0])
    return (ANY, None)


def expect_int(s):
    """-> (class, value).  class in BLANK / VAL / NONE / ANY."""
    t = s.replace(' ', '')
    if not t:
        return (BLANK, None)
    try:
        return (VAL, int(s))
    except ValueError:
        pass
    for c in s:
        if c not in NUMBER_CHARS:
            return (NONE, None)
    if _STRICT_INT.match(t):
        return (VAL, fortnum.parse_int(t))
    return (ANY, None)


def same_float(a, b):
    """Identical doubles: equal with the same sign of zero, or both NaN."""
    if not isinstance(a, float):
        return False
    if a != a:
        return b != b
    return a == b and (a != 0 or math.copysign(1.0, a) == math.copysign(1.0, b))


def judge_real(s, got, sentinel):
    """-> None when the result is acceptable, else (clause, expected description)."""
    cls, val = expect_real(s)
    if cls == BLANK:
        return None if got is sentinel else ('blank-value', 'the blank value')
    if got is sentinel:
        return ('blank-value-for-text', 'not the blank value')
    if cls == VAL:
        return None if same_float(got, val) else ('value', repr(val))
    if cls == NAN:
        return None if (isinstance(got, float) and got != got) else ('nan-for-non-number', 'nan')
    return None if (got is None or isinstance(got, float)) else ('type', 'a float or None')


def judge_int(s, got, sentinel):
    cls, val = expect_int(s)
    if cls == BLANK:
        return None if got is sentinel else ('blank-value', 'the blank value')
    if got is sentinel:
        return ('blank-value-for-text', 'not the blank value')
    if cls == VAL:
        return None if (type(got) is int and got == val) else ('value', repr(val))
    if cls == NONE:
        return None if got is None else ('none-for-non-number', 'None')
    return None if (got is None or type(got) is int) else ('type', 'an int or None')


def input_class(s):
    """Coarse class of an input text for violation signatures."""
    t = s.replace(' ', '')
    if not t:
        return 'blank'
    tags = []
    if ' ' in s.strip(' '):
        tags.append('embedded-blank')
    elif s != t:
        tags.append('padded')
    low = t.lower()
    if any(c not in NUMBER_CHARS for c in s):
        tags.append('foreign-char')
    elif re.search(r'[0-9.][+-]\d{3}$', t):
        tags.append('exp3-noletter')
    elif 'd' in low:
        tags.append('D-exponent')
    elif 'e' in low:
        tags.append('E-exponent')
    elif re.match(r'^[+-]?\d+$', t):
        tags.append('integer')
    elif re.match(r'^[+-]?[\d.]+$', t):
        tags.append('fixed-point')
    else:
        tags.append('other')
    return '+'.join(tags)


# ---------------------------------------------------------------------------------------------------------
# enumerators

MANT12 = '12345678901234567'


def real_values(exponents, lengths=range(1, 18)):
    """(sign, digits, exponent) -> the double nearest to sign 0.digits * 10**exponent."""
    for e in exponents:
        for n in lengths:
            for digs in (MANT12[:n], '9' * n):
                for sign in ('', '-'):
                    yield sign, digs, e, float('%s0.%se%d' % (sign, digs, e))


E_STYLES = [dict(letter=l, scale=sc, lead_zero=lz, plus=pl, exp_blank_plus=bp, drop_letter_3=dr)
            for l in 'EeDd' for sc in (0, 1) for lz in ((True, False) if sc == 0 else (True,))
            for pl in (False, True) for bp in (False, True) for dr in (True, False)]


def e_renderings(value, ndig):
    """Every distinct E-style text (no padding) of a value printed with ndig significant digits."""
    out = []
    seen = set()
    for st in E_STYLES:
        d = ndig if st['scale'] == 0 else ndig - 1
        t = fortnum.render_E(value, 40, d, **st).strip(' ')
        if t not in seen:
            seen.add(t)
            out.append(t)
    return out


def f_renderings(value, d):
    out, seen = [], set()
    for plus in (False, True):
        for lz in (True, False):
            t = fortnum.render_F(value, 60, d, plus=plus, lead_zero=lz).strip(' ')
            if t not in seen:
                seen.add(t)
                out.append(t)
    return out


def exponent_mark(core):
    """Index of the first character of the exponent part (letter, or sign when the letter is dropped);
    len(core) when there is none."""
    for i, c in enumerate(core):
        if c in 'eEdD':
            return i
    for i in range(len(core) - 1, 0, -1):
        if core[i] in '+-':
            return i
    return len(core)


def blank_variants(core, width=20, every_gap=True):
    """The core text with blanks placed as a fixed-width Fortran field may hold them: every single gap
    (leading, trailing and embedded), padding to the field width and a few combined placements."""
    n = len(core)
    out = [core]
    if every_gap:
        for i in range(n + 1):
            out.append(core[:i] + ' ' + core[i:])
    out.append('  ' + core)
    out.append(core + '  ')
    out.append(' ' + core + ' ')
    if n < width:
        out.append(core.rjust(width))
        out.append(core.ljust(width))
    m = exponent_mark(core)
    s0 = 1 if core[0] in '+-' else 0
    if m < n:
        # blank after the sign AND before the exponent; blank on both sides of the exponent sign
        out.append(core[:s0] + ' ' + core[s0:m] + ' ' + core[m:])
        if core[m] in 'eEdD' and m + 1 < n:
            out.append(core[:m + 1] + ' ' + core[m + 1:m + 2] + ' ' + core[m + 2:])
    # a blank in every gap at once
    out.append(' '.join(core))
    seen, res = set(), []
    for t in out:
        if t not in seen:
            seen.add(t)
            res.append(t)
    return res


def int_cores():
    vals = [0]
    for k in range(1, 10):
        for v in (10 ** (k - 1), 10 ** k - 1, int(MANT12[:k])):
            vals += [v, -v]
    seen, out = set(), []
    for v in vals:
        for plus in (False, True):
            t = fortnum.render_I(v, 12, plus=plus).strip(' ')
            if t not in seen:
                seen.add(t)
                out.append((t, v))
    out.append(('-0', 0))
    return out


def all_gap_blankings(core):
    """Every subset of the gaps of core (before, between, after) holding one blank."""
    n = len(core)
    for mask in range(1 << (n + 1)):
        parts = []
        for i in range(n + 1):
            if mask >> i & 1:
                parts.append(' ')
            if i < n:
                parts.append(core[i])
        yield ''.join(parts)


def strings_of_length(n, alphabet=ALPHABET, prefix=''):
    for tup in itertools.product(alphabet, repeat=n - len(prefix)):
        yield prefix + ''.join(tup)


def substitutions(core, letters):
    for i in range(len(core)):
        head, tail, old = core[:i], core[i + 1:], core[i]
        for c in letters:
            if c != old:
                yield head + c + tail
