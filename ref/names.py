"""Reference side of C17 (names): capacities of the naming conventions, the simulator's (A3,I2) print of a
block name, and the option spaces.  Written from the documentation of the conventions
(0: 3-char column + 2-digit layer; 1: 3-char layer + 2-digit column; 2: 2-char layer + 3-digit column;
3: 3-char column + 2-char layer), not from the library's code.
"""
from string import ascii_lowercase, ascii_uppercase, ascii_letters, digits, punctuation

COLNAME_LENGTH = [3, 2, 3, 3]
LAYERNAME_LENGTH = [2, 3, 2, 2]
SURFACE_LAYER_NAME = [' 0', 'atm', 'at', ' 0']
ATMOSPHERE_COLUMN_NAME = ['ATM', ' 0', '  0', 'ATM']
COLUMN_IS_CHARS = [True, False, False, True]
LAYER_IS_CHARS = [False, True, True, True]

CUSTOM27 = ascii_lowercase + 'A'


def uniq(chars):
    out = []
    for c in chars:
        if c not in out:
            out.append(c)
    return ''.join(out)


def letter_capacity(k, length, spaces):
    """How many numbers 1, 2, 3, ... get a distinct name of at most 'length' letters from k letters:
    with blanks allowed the names are all strings of 1..length letters; without blanks they are the strings of exactly
    'length' letters, of which the all-first-letter one belongs to the number 0."""
    if spaces:
        return sum(k ** j for j in range(1, length + 1))
    return k ** length - 1


def digit_capacity(length):
    return 10 ** length - 1


def in_letter_namespace(name, chars, length, spaces):
    """Is 'name' (no padding) the name of one of the numbers 1..capacity?"""
    if not name or any(c not in chars for c in name):
        return False
    if spaces:
        return 1 <= len(name) <= length
    return len(name) == length and name != chars[0] * length


def column_capacity(convention, chars, spaces):
    L = COLNAME_LENGTH[convention]
    if COLUMN_IS_CHARS[convention]:
        return letter_capacity(len(chars), L, spaces)
    return digit_capacity(L)


def layer_capacity(convention, chars, spaces, surface_name=None):
    """Number of layers below the surface layer that can be named (the surface layer name is not available).
    surface_name: the name the surface layer actually has (default: the documented one)."""
    L = LAYERNAME_LENGTH[convention]
    if surface_name is None:
        surface_name = SURFACE_LAYER_NAME[convention]
    if not LAYER_IS_CHARS[convention]:
        cap = digit_capacity(L)           # numbers 1..99; the documented surface name ' 0' belongs to number 0
        if surface_name.strip(' ').isdigit() and 1 <= int(surface_name) <= cap:
            cap -= 1
        return cap
    cap = letter_capacity(len(chars), L, spaces)
    if in_letter_namespace(surface_name.strip(' '), chars, L, spaces):
        cap -= 1
    return cap


def layer_capacity_lower_bound(convention, chars, spaces):
    """Layers that can be named whatever name the surface layer has been given (one name at most is taken by it)."""
    L = LAYERNAME_LENGTH[convention]
    if not LAYER_IS_CHARS[convention]:
        return digit_capacity(L) - 1
    return letter_capacity(len(chars), L, spaces) - 1


def layer_number_capacity(convention, chars, spaces):
    """Largest number layer_name_from_number can name (no surface-layer exclusion: that is add_layers' business)."""
    L = LAYERNAME_LENGTH[convention]
    if not LAYER_IS_CHARS[convention]:
        return digit_capacity(L)
    return letter_capacity(len(chars), L, spaces)


def simulator_print(name):
    """What TOUGH2 prints for a block it read as (A3,I2): three characters and a right-justified integer."""
    return '%3s%2d' % (name[0:3], int(name[3:5]))


def valid_blockname_ref(name):
    """The documented form of a TOUGH2 block name: three characters (letters, digits, blanks, punctuation), then a digit
    or blank, then a digit."""
    first = ascii_letters + digits + ' ' + punctuation
    return len(name) == 5 and all(c in first for c in name[:3]) and name[3] in digits + ' ' and name[4] in digits


def bijective_name(i, chars):
    """Reference numeration with blanks allowed: 1 -> first letter, k -> last letter, k+1 -> first+first, ...
    Only used to build dictionaries with holes for new_dict_key; the oracle never compares names with it."""
    k = len(chars)
    out = []
    while i > 0:
        i -= 1
        out.append(chars[i % k])
        i //= k
    return ''.join(reversed(out))


# option spaces -------------------------------------------------------------------------------------------

NAME_CHARSETS = {'lower': ascii_lowercase, 'upper': ascii_uppercase, 'abc': 'abc', 'atm': 'atm', 'mta': 'mta',
                 'custom27': CUSTOM27, 'one': 'a'}

# (chars argument, case argument) handed to rectangular(); the effective alphabet is uniq(casefn(chars))
RECT_CHARSETS = {'one': ('a', None), 'upper': (ascii_uppercase, None), 'lower': (ascii_lowercase, None), 'lower-u': (ascii_lowercase, 'u'), 'upper-l': (ascii_uppercase, 'l'),
                 'abc': ('abc', None), 'atm': ('atm', None), 'abcab': ('abcab', None), 'custom27': (CUSTOM27, None),
                 # the same letter in both cases: repeats appear only after the case option has been applied
                 'mixed12': ('qwertyQWERTY', None), 'mixed12-u': ('qwertyQWERTY', 'u'), 'mixed12-l': ('qwertyQWERTY', 'l'),
                 'letters52': (ascii_letters, None), 'letters52-u': (ascii_letters, 'u'), 'letters52-l': (ascii_letters, 'l')}

OTHER_CHARSET = {'lower': 'upper', 'upper': 'lower', 'abc': 'atm', 'atm': 'abc', 'mta': 'abc', 'custom27': 'lower', 'one': 'abc'}


def effective_chars(chars, case):
    if case is not None:
        chars = chars.upper() if case != 'l' else chars.lower()
    return uniq(chars)
