"""Canonical projection of a t2data object, and the comparison of two canonical models.

A canonical model is plain data (dict / list / tuple / str / int / float / None) in the *meaning of the
file format*: what a TOUGH2 or AUTOUGH2 program would get from the records.  ref/t2layout.read_main builds
the same shape from bytes.  Shape:

 title   str (stripped)                     SIMUL  str
 ROCKS   [ {name, nad, density, porosity, k1, k2, k3, conductivity, specific_heat,
            l1: {compressibility, expansivity, dry_conductivity, tortuosity, klinkenberg, xkd3, xkd4}  (nad >= 1)
            rp: {type, parameters[7]}, cp: {type, parameters[7]}                                       (nad >= 2) } ]
 PARAM   {max_iterations .. be, option (24 digits), tstart .. scale, timestep (table, only when
          const_timestep < 0), relative_error .. derivative_increment, default_incons [..]}
 MOMOP   21 digits                          START / NOVER  True
 RPCAP   {rp: {type, parameters}, cp: {type, parameters}}
 LINEQ / SOLVR / MULTI   {field: value}     TIMES  {num_times_specified, num_times, max_timestep,
                                                    time_increment, time [..]}
 SELEC   {integer [16], float [..]}         DIFFU  [[per phase] per component]
 ELEME   [ {name, nseq, nadd, rocktype, volume, ahtx, pmx, x, y, z} ]
 CONNE   [ {block1, block2, nseq, nad1, nad2, direction, distance1, distance2, area, dircos, sigma} ]
 MESHM   [ ('rz2d', [(kind, {..})]) | ('xyz', {deg, sub [ {ntype, no, del, deli} ]}) | ('minc', {..}) ]
 GENER   [ {block, name, nseq, nadd, nads, ltab, type, itab, gx, ex, hg, fg, time [], rate [], enthalpy []} ]
 SHORT   {frequency, block [names], connection [(a, b)], generator [(block, name)]}
 FOFT / GOFT [names]      COFT [(a, b)]
 INCON   {block: {block, nseq, nadd, porosity, variables [..]}}      INDOM  {rock: [..]}

Rules of the comparison (DESIGN C01): names exact (block and generator names in their (A3, I2) meaning),
integers exact, None == absent == blank, reals to the reference digits of their field, tables element-wise,
history / short items by the names they resolve to; lists of positional optional values are equal up to
trailing None.  The in-memory `atmosphere` flag of a block is not projected.
"""
import math

from ref.t2layout import norm_name

_P1 = ['max_iterations', 'print_level', 'max_timesteps', 'max_duration', 'print_interval']
_P1R = ['diff0', 'texp', 'be']
_P2 = ['tstart', 'tstop', 'const_timestep', 'max_timestep', 'gravity', 'timestep_reduction', 'scale']
_P3 = ['relative_error', 'absolute_error', 'pivot', 'upstream_weight', 'newton_weight', 'derivative_increment']
_L1 = ['compressibility', 'expansivity', 'dry_conductivity', 'tortuosity', 'klinkenberg', 'xkd3', 'xkd4']

# names compared in their (A3, I2) meaning
_BLOCKISH = set(['block', 'block1', 'block2', 'print_block'])


def _num(v):
    """numpy scalars and Python numbers are the same number."""
    if v is None:
        return None
    if isinstance(v, (str, bytes)):
        return v
    try:
        if isinstance(v, bool):
            return int(v)
        if hasattr(v, 'dtype'):
            v = v.item()
    except Exception:
        pass
    return v


def _s(v):
    if v is None:
        return None
    if isinstance(v, bytes):
        v = v.decode()
    return None if v.strip() == '' else v


def _lst(v):
    if v is None:
        return []
    return [_num(x) for x in list(v)]


def _fn(dist, keys):
    return dict((k, _num(dist.get(k))) for k in keys)


def _digits_str(arr, n):
    """option arrays are 1-based with an unused element 0."""
    return ''.join(str(int(m)) for m in list(arr)[1:n + 1])


def _curve(d):
    d = d or {}
    return {'type': _num(d.get('type')), 'parameters': _lst(d.get('parameters'))}


def _bname(item):
    return norm_name(item if isinstance(item, str) else item.name)


def canon(dat):
    """t2data object -> canonical model.  Reads attributes only; never calls a method that changes the
    object."""
    M = {'title': (dat.title or '').strip()}
    flavour = 'AUTOUGH2' if dat.simulator else 'TOUGH2'
    if dat.simulator:
        M['SIMUL'] = dat.simulator.rstrip()
    g = dat.grid
    if g is not None and g.rocktypelist:
        rocks = []
        for rt in g.rocktypelist:
            r = {'name': rt.name, 'nad': _num(rt.nad), 'density': _num(rt.density), 'porosity': _num(rt.porosity),
                 'k1': _num(rt.permeability[0]), 'k2': _num(rt.permeability[1]), 'k3': _num(rt.permeability[2]),
                 'conductivity': _num(rt.conductivity), 'specific_heat': _num(rt.specific_heat)}
            nad = rt.nad or 0
            if nad >= 1:
                r['l1'] = dict((k, _num(rt.__dict__.get(k))) for k in _L1)
            if nad >= 2:
                r['rp'] = _curve(rt.relative_permeability)
                r['cp'] = _curve(rt.capillarity)
            rocks.append(r)
        M['ROCKS'] = rocks
    p = dat.parameter
    if p:
        P = _fn(p, _P1 + _P2 + _P3 + ['texp', 'be'])
        if flavour == 'AUTOUGH2':
            P['diff0'] = _num(p.get('diff0'))
        P['option'] = _digits_str(p['option'], 24)
        P['print_block'] = norm_name(_s(p.get('print_block')))
        dt = p.get('const_timestep')
        P['timestep'] = _lst(p.get('timestep')) if (dt is not None and dt < 0) else None
        P['default_incons'] = _lst(p.get('default_incons'))
        M['PARAM'] = P
    if any(list(dat.more_option)):
        M['MOMOP'] = _digits_str(dat.more_option, 21)
    if dat.start:
        M['START'] = True
    if dat.noversion:
        M['NOVER'] = True
    if dat.relative_permeability or dat.capillarity:
        M['RPCAP'] = {'rp': _curve(dat.relative_permeability), 'cp': _curve(dat.capillarity)}
    if dat.lineq:
        M['LINEQ'] = dict((k, _num(v)) for k, v in dat.lineq.items())
    if dat.solver:
        M['SOLVR'] = dict((k, (_s(v) if isinstance(v, str) else _num(v))) for k, v in dat.solver.items())
    if dat.multi:
        mu = dict((k, _num(v)) for k, v in dat.multi.items())
        if isinstance(mu.get('eos'), str):
            mu['eos'] = _s(mu['eos'].strip())
        M['MULTI'] = mu
    if dat.output_times:
        t = dict((k, _num(v)) for k, v in dat.output_times.items() if k != 'time')
        t['time'] = _lst(dat.output_times.get('time'))
        M['TIMES'] = t
    if dat.selection:
        M['SELEC'] = {'integer': _lst(dat.selection.get('integer')), 'float': _lst(dat.selection.get('float'))}
    if dat.diffusion:
        M['DIFFU'] = [_lst(c) for c in dat.diffusion]
    if g is not None and g.blocklist:
        blocks = []
        for b in g.blocklist:
            c = b.centre
            blocks.append({'name': norm_name(b.name), 'nseq': _num(b.nseq), 'nadd': _num(b.nadd),
                           'rocktype': b.rocktype.name, 'volume': _num(b.volume), 'ahtx': _num(b.ahtx),
                           'pmx': _num(b.pmx), 'x': None if c is None else _num(c[0]),
                           'y': None if c is None else _num(c[1]), 'z': None if c is None else _num(c[2])})
        M['ELEME'] = blocks
    if g is not None and g.connectionlist:
        cons = []
        for c in g.connectionlist:
            cons.append({'block1': norm_name(c.block[0].name), 'block2': norm_name(c.block[1].name),
                         'nseq': _num(c.nseq), 'nad1': _num(c.nad1), 'nad2': _num(c.nad2),
                         'direction': _num(c.direction), 'distance1': _num(c.distance[0]),
                         'distance2': _num(c.distance[1]), 'area': _num(c.area), 'dircos': _num(c.dircos),
                         'sigma': _num(c.sigma)})
        M['CONNE'] = cons
    if dat.meshmaker:
        mm = []
        for typ, sec in dat.meshmaker:
            typ = typ.lower()
            if typ == 'rz2d':
                subs = []
                for st, sub in sec:
                    d = {}
                    for k, v in sub.items():
                        d[k] = _lst(v) if isinstance(v, (list, tuple)) else _num(v)
                    subs.append((st, d))
                mm.append(('rz2d', subs))
            elif typ == 'xyz':
                subs = []
                for sub in sec[1:]:
                    d = {'ntype': _s(sub.get('ntype')), 'no': _num(sub.get('no')), 'del': _num(sub.get('del'))}
                    if sub.get('del') is not None and sub['del'] == 0:
                        d['deli'] = _lst(sub.get('deli'))
                    subs.append(d)
                mm.append(('xyz', {'deg': _num(sec[0]), 'sub': subs}))
            elif typ == 'minc':
                mm.append(('minc', {'type': _s(sec.get('type')), 'dual': _s(sec.get('dual')),
                                    'num_continua': _num(sec.get('num_continua')), 'where': _s(sec.get('where')),
                                    'spacing': _lst(sec.get('spacing')), 'vol': _lst(sec.get('vol'))}))
        M['MESHM'] = mm
    if dat.generatorlist:
        gens = []
        for gen in dat.generatorlist:
            gens.append({'block': norm_name(gen.block), 'name': norm_name(gen.name), 'nseq': _num(gen.nseq),
                         'nadd': _num(gen.nadd), 'nads': _num(gen.nads), 'ltab': _num(gen.ltab),
                         'type': gen.type, 'itab': _s(gen.itab), 'gx': _num(gen.gx), 'ex': _num(gen.ex),
                         'hg': _num(gen.hg), 'fg': _num(gen.fg), 'time': _lst(gen.time), 'rate': _lst(gen.rate),
                         'enthalpy': _lst(gen.enthalpy)})
        M['GENER'] = gens
    if dat.short_output:
        so = dat.short_output
        S = {'frequency': _num(so.get('frequency')) or None}
        if 'block' in so:
            S['block'] = [_bname(b) for b in so['block']]
        if 'connection' in so:
            S['connection'] = [(norm_name(c.block[0].name), norm_name(c.block[1].name)) for c in so['connection']]
        if 'generator' in so:
            S['generator'] = [(norm_name(x.block), norm_name(x.name)) for x in so['generator']]
        M['SHORT'] = S
    if dat.history_block:
        M['FOFT'] = [_bname(b) for b in dat.history_block]
    if dat.history_connection:
        M['COFT'] = [tuple(norm_name(n) for n in c) if isinstance(c, tuple)
                     else (norm_name(c.block[0].name), norm_name(c.block[1].name)) for c in dat.history_connection]
    if dat.history_generator:
        M['GOFT'] = [_bname(b) for b in dat.history_generator]
    if dat.incon:
        inc = {}
        for name, v in dat.incon.items():
            inc[norm_name(name)] = {'block': norm_name(name), 'porosity': _num(v[0]), 'variables': _lst(v[1]),
                                    'nseq': _num(v[2]) if len(v) > 2 else None,
                                    'nadd': _num(v[3]) if len(v) > 3 else None}
        M['INCON'] = inc
    if dat.indom:
        M['INDOM'] = dict((k, _lst(v)) for k, v in dat.indom.items())
    return M


# --------------------------------------------------------------------------------------------------
# comparison


def _sig_for(path, xp, exact):
    """Significant digits the reference layout guarantees for the real at 'path'."""
    sec = path[0]
    if sec in exact:
        return 15
    if sec in xp:
        return 8
    last = [p for p in path if isinstance(p, str)][-1]
    if sec == 'GENER' and last in ('time', 'rate', 'enthalpy'):
        return 7
    if sec == 'INCON':
        return 9 if last == 'porosity' else 14
    if sec == 'INDOM':
        return 13
    if sec == 'PARAM' and last == 'default_incons':
        return 14
    return 4


def _isnum(v):
    return isinstance(v, (int, float)) and not isinstance(v, bool)


def _empty(v):
    if v is None:
        return True
    if isinstance(v, (list, tuple, dict)) and len(v) == 0:
        return True
    if isinstance(v, str) and v.strip() == '':
        return True
    if isinstance(v, (list, tuple)) and all(_empty(x) for x in v):
        return True
    return False


def _trim(v):
    v = list(v)
    while v and _empty(v[-1]):
        v.pop()
    return v


def compare(a, b, xp=(), exact=(), zero_is_none=(), path=(), out=None, limit=40):
    """Differences between canonical models a (expected) and b (got): list of (path, a, b).
    xp: sections carrying extra-precision digits; exact: sections carried in binary (all digits);
    zero_is_none: sections where an absent real is 0.0 by construction of the carrier (binary mesh)."""
    if out is None:
        out = []
    if len(out) >= limit:
        return out
    if isinstance(a, tuple) and isinstance(b, tuple) and len(a) == 2 and isinstance(a[0], str) \
            and isinstance(a[1], (dict, list)):
        # (kind, data) items of MESHM
        if a[0] != b[0]:
            out.append((path, a[0], b[0]))
        else:
            compare(a[1], b[1], xp, exact, zero_is_none, path + (a[0],), out, limit)
        return out
    if isinstance(a, dict) or isinstance(b, dict):
        if _empty(a) and _empty(b):
            return out
        if not isinstance(a, dict) or not isinstance(b, dict):
            if _empty(a) and isinstance(b, dict):
                a = {}
            elif _empty(b) and isinstance(a, dict):
                b = {}
            else:
                out.append((path, a, b))
                return out
        for k in sorted(set(a) | set(b), key=str):
            compare(a.get(k), b.get(k), xp, exact, zero_is_none, path + (k,), out, limit)
        return out
    if isinstance(a, (list, tuple)) or isinstance(b, (list, tuple)):
        la = _trim(a) if isinstance(a, (list, tuple)) else ([] if _empty(a) else None)
        lb = _trim(b) if isinstance(b, (list, tuple)) else ([] if _empty(b) else None)
        if la is None or lb is None:
            out.append((path, a, b))
            return out
        if len(la) != len(lb):
            out.append((path + ('len',), len(la), len(lb)))
            return out
        for i, (x, y) in enumerate(zip(la, lb)):
            compare(x, y, xp, exact, zero_is_none, path + (i,), out, limit)
        return out
    # leaves
    if isinstance(a, str) or isinstance(b, str):
        sa = None if _empty(a) else a
        sb = None if _empty(b) else b
        if sa != sb:
            out.append((path, a, b))
        return out
    if a is None or b is None:
        if a is None and b is None:
            return out
        other = b if a is None else a
        if path and path[0] in zero_is_none and _isnum(other) and other == 0:
            return out
        out.append((path, a, b))
        return out
    if isinstance(a, bool) or isinstance(b, bool):
        if bool(a) != bool(b):
            out.append((path, a, b))
        return out
    if isinstance(a, int) and isinstance(b, int):
        if a != b:
            out.append((path, a, b))
        return out
    if _isnum(a) and _isnum(b):
        fa, fb = float(a), float(b)
        if fa == fb:
            return out
        if math.isnan(fa) or math.isnan(fb) or math.isinf(fa) or math.isinf(fb):
            out.append((path, a, b))
            return out
        sig = _sig_for(path, xp, exact)
        tol = 0.5 * 10.0 ** (1 - sig) * max(abs(fa), abs(fb)) * (1 + 1e-6)
        if abs(fa - fb) > tol:
            out.append((path, a, b))
        return out
    if a != b:
        out.append((path, a, b))
    return out


def _brief(v):
    if isinstance(v, (list, tuple, dict)) and len(v) > 12:
        return '<%s of %d>' % (type(v).__name__, len(v))
    return repr(v)[:160]


def unresolved(dat):
    """Names held by the object that are meant to name one of its blocks but are not a key of its own grid
    (only when the object has blocks): [(kind, name)].  Block names are kept in memory in their repaired
    spelling ('AA106' for the (A3,I2) name 'AA1 6'); a name left in file spelling does not resolve."""
    g = dat.grid
    if g is None or not g.blocklist:
        return []
    out = []
    pb = dat.parameter.get('print_block') if dat.parameter else None
    if isinstance(pb, str) and pb.strip() and pb not in g.block:
        out.append(('PARAM/print_block', pb))
    for gen in dat.generatorlist:
        if gen.block not in g.block:
            out.append(('GENER/block', gen.block))
    for name in dat.incon:
        if name not in g.block:
            out.append(('INCON/block', name))
    return out


def show(diffs, n=3):
    return '; '.join('%s: expected %s got %s' % ('/'.join(str(p)[:40] for p in path), _brief(a), _brief(b))
                     for path, a, b in diffs[:n])


def field_class(path):
    """Coarse class of a differing path for violation signatures: section + field names, no indices."""
    out, skip = [], False
    for p in path:
        if skip:
            skip = False        # the block / rock name that keys an INCON / INDOM entry is an index, not a field
            continue
        if isinstance(p, int):
            continue
        out.append(str(p))
        skip = p in ('INCON', 'INDOM')
    return '/'.join(out)
