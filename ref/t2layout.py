"""Frozen reference column layouts of the TOUGH2 / AUTOUGH2 input records, a reference reader that
slices written bytes at those columns, and a reference Fortran-style writer.

Source of the layouts: the record formats of the TOUGH2 User's Guide, Version 2 (LBNL-43134, "Preparation
of input data": ROCKS.1 .. ROCKS.1.3, MULTI, PARAM.1 .. PARAM.4, MOMOP, INDOM, SOLVR, RPCAP, TIMES, ELEME,
CONNE, GENER, INCON, DIFFU, SELEC, FOFT/COFT/GOFT, MESHMaker RZ2D / XYZ / MINC) written down as Fortran FORMAT
strings.  The AUTOUGH2-only records (SIMUL, LINEQ, the EOS name of MULTI, DIFF0 of PARAM.1, FG of GENER.1,
SHORT and the 15-column extra-precision companion file) have no public format document; they were written
down from the shipped AUTOUGH2 files under tests/data and cross-read once against the pinned tree.
Nothing here is imported from the library.

A canonical *model* (the value both the reference reader and ref/t2canon.canon produce) is a dict
    {'title': str, '<KEYWORD>': content ...}       (see ref/t2canon.py for the shape of each content)
"""
import re
import struct

from ref import fortnum

# --------------------------------------------------------------------------------------------------
# layouts

# record -> (FORTRAN format, names of the non-skip fields)
RECORDS = {
    'title': ('A80', ['title']),
    'simul': ('A80', ['simulator']),
    'rocks1': ('A5,I5,7E10.4', ['name', 'nad', 'density', 'porosity', 'k1', 'k2', 'k3', 'conductivity',
                                'specific_heat']),
    'rocks1.1': ('7E10.4', ['compressibility', 'expansivity', 'dry_conductivity', 'tortuosity', 'klinkenberg',
                            'xkd3', 'xkd4']),
    'rocks1.2': ('I5,5X,7E10.4', ['type', 'p1', 'p2', 'p3', 'p4', 'p5', 'p6', 'p7']),
    'rocks1.3': ('I5,5X,7E10.4', ['type', 'p1', 'p2', 'p3', 'p4', 'p5', 'p6', 'p7']),
    # TOUGH2 V2: (2I2, 3I4, 24I1, 10X, 2E10.4)  NOITE KDATA MCYC MSEC MCYPR MOP(24) -- TEXP BE
    'param1:TOUGH2': ('2I2,3I4,A24,10X,2E10.4', ['max_iterations', 'print_level', 'max_timesteps', 'max_duration',
                                                 'print_interval', 'option', 'texp', 'be']),
    # MULKOM/AUTOUGH2 keep DIFF0 in columns 41-50: (2I2, 3I4, 24I1, 3E10.4)
    'param1:AUTOUGH2': ('2I2,3I4,A24,3E10.4', ['max_iterations', 'print_level', 'max_timesteps', 'max_duration',
                                               'print_interval', 'option', 'diff0', 'texp', 'be']),
    'param2': ('4E10.4,A5,5X,3E10.4', ['tstart', 'tstop', 'const_timestep', 'max_timestep', 'print_block',
                                       'gravity', 'timestep_reduction', 'scale']),
    'timestep': ('8E10.4', ['v'] * 8),
    'param3': ('6E10.4', ['relative_error', 'absolute_error', 'pivot', 'upstream_weight', 'newton_weight',
                          'derivative_increment']),
    'param4': ('4E20.14', ['v'] * 4),
    'momop': ('A21', ['more_option']),
    'multi:TOUGH2': ('5I5', ['num_components', 'num_equations', 'num_phases', 'num_secondary_parameters',
                             'num_inc']),
    'multi:AUTOUGH2': ('4I5,A4', ['num_components', 'num_equations', 'num_phases', 'num_secondary_parameters',
                                  'eos']),
    'lineq': ('I2,E10.4,I4,I1,I4', ['type', 'epsilon', 'max_iterations', 'gauss', 'num_orthog']),
    'solvr': ('I1,2X,A2,3X,A2,2E10.4', ['type', 'z_precond', 'o_precond', 'relative_max_iterations', 'closure']),
    'rpcap': ('I5,5X,7E10.4', ['type', 'p1', 'p2', 'p3', 'p4', 'p5', 'p6', 'p7']),
    'times1': ('2I5,2E10.4', ['num_times_specified', 'num_times', 'max_timestep', 'time_increment']),
    'times2': ('8E10.4', ['v'] * 8),
    'selec1': ('16I5', ['v'] * 16),
    'selec2': ('8E10.4', ['v'] * 8),
    'diffu': ('8E10.4', ['v'] * 8),
    'eleme': ('A5,2I5,A5,6E10.4', ['name', 'nseq', 'nadd', 'rocktype', 'volume', 'ahtx', 'pmx', 'x', 'y', 'z']),
    'conne': ('2A5,4I5,5E10.4', ['block1', 'block2', 'nseq', 'nad1', 'nad2', 'direction', 'distance1',
                                 'distance2', 'area', 'dircos', 'sigma']),
    'gener1': ('2A5,4I5,5X,A4,A1,4E10.4', ['block', 'name', 'nseq', 'nadd', 'nads', 'ltab', 'type', 'itab',
                                          'gx', 'ex', 'hg', 'fg']),
    'gener_table': ('4E14.7', ['v'] * 4),
    'incon1': ('A5,2I5,E15.9', ['block', 'nseq', 'nadd', 'porosity']),
    'incon2': ('4E20.14', ['v'] * 4),
    'indom1': ('A5', ['rock']),
    'indom2': ('4E20.13', ['v'] * 4),
    'foft': ('A5', ['block']),
    'coft': ('2A5', ['block1', 'block2']),
    'goft': ('A5', ['block']),
    'short': ('A5,I2', ['keyword', 'frequency']),
    'short_block': ('A5', ['block']),
    'short_pair': ('2A5', ['a', 'b']),
    'radii1': ('I5', ['n']),
    'radii2': ('8E10.4', ['v'] * 8),
    'equid': ('I5,5X,E10.4', ['nequ', 'dr']),
    'logar': ('I5,5X,2E10.4', ['nlog', 'rlog', 'dr']),
    'layer1': ('I5', ['n']),
    'layer2': ('8E10.4', ['v'] * 8),
    'xyz1': ('E10.4', ['deg']),
    'xyz2': ('A2,3X,I5,E10.4', ['ntype', 'no', 'del']),
    'xyz3': ('8E10.4', ['v'] * 8),
    'minc1': ('2A5,5X,A5', ['part', 'type', 'dual']),
    'part1': ('2I3,A4,7E10.4', ['num_continua', 'nvol', 'where', 's1', 's2', 's3', 's4', 's5', 's6', 's7']),
    'part2': ('8E10.4', ['v'] * 8),
    # extra-precision companion file (AUTOUGH2): same records, every real 15 columns with 8 decimals
    'xp:rocks1': ('A5,I5,7E15.8', ['name', 'nad', 'density', 'porosity', 'k1', 'k2', 'k3', 'conductivity',
                                   'specific_heat']),
    'xp:rocks1.1': ('7E15.8', ['compressibility', 'expansivity', 'dry_conductivity', 'tortuosity', 'klinkenberg',
                               'xkd3', 'xkd4']),
    'xp:rocks1.2': ('I5,5X,7E15.8', ['type', 'p1', 'p2', 'p3', 'p4', 'p5', 'p6', 'p7']),
    'xp:rocks1.3': ('I5,5X,7E15.8', ['type', 'p1', 'p2', 'p3', 'p4', 'p5', 'p6', 'p7']),
    'xp:rpcap': ('I5,5X,7E15.8', ['type', 'p1', 'p2', 'p3', 'p4', 'p5', 'p6', 'p7']),
    'xp:eleme': ('A5,2I5,A5,6E15.8', ['name', 'nseq', 'nadd', 'rocktype', 'volume', 'ahtx', 'pmx', 'x', 'y', 'z']),
    'xp:conne': ('2A5,4I5,5E15.8', ['block1', 'block2', 'nseq', 'nad1', 'nad2', 'direction', 'distance1',
                                    'distance2', 'area', 'dircos', 'sigma']),
    'xp:gener1': ('2A5,4I5,5X,A4,A1,4E15.8', ['block', 'name', 'nseq', 'nadd', 'nads', 'ltab', 'type', 'itab',
                                             'gx', 'ex', 'hg', 'fg']),
    'xp:gener_table': ('4E15.8', ['v'] * 4),
}

SECTION_KEYWORDS = ['SIMUL', 'ROCKS', 'PARAM', 'MOMOP', 'START', 'NOVER', 'RPCAP', 'LINEQ', 'SOLVR', 'MULTI',
                    'TIMES', 'SELEC', 'DIFFU', 'ELEME', 'CONNE', 'MESHM', 'GENER', 'SHORT', 'FOFT', 'COFT',
                    'GOFT', 'INCON', 'INDOM']
END_KEYWORDS = ['ENDCY', 'ENDFI']
XP_SECTIONS = ['ROCKS', 'ELEME', 'CONNE', 'RPCAP', 'GENER']

_TOK = re.compile(r'^(\d*)([AIEFX])(\d*)(?:\.(\d+))?$')


class Field(object):
    __slots__ = ('name', 'start', 'end', 'kind', 'd')

    def __init__(self, name, start, end, kind, d):
        self.name, self.start, self.end, self.kind, self.d = name, start, end, kind, d

    @property
    def width(self):
        return self.end - self.start


def parse_format(fmt):
    """'A5,I5,7E10.4' -> [(kind, width, d)], one per repetition ('5X' is one skip of width 5)."""
    out = []
    for tok in fmt.split(','):
        m = _TOK.match(tok.strip())
        if not m:
            raise ValueError('bad reference format %r' % fmt)
        rep, kind, w, d = m.groups()
        if kind == 'X':
            out.append(('X', int(rep or 1), None))
            continue
        for _ in range(int(rep or 1)):
            out.append((kind, int(w), int(d) if d else None))
    return out


_fields_cache = {}


def fields(rec):
    """The non-skip fields of a record with their reference columns [start, end)."""
    f = _fields_cache.get(rec)
    if f is None:
        fmt, names = RECORDS[rec]
        f, pos, i = [], 0, 0
        for kind, w, d in parse_format(fmt):
            if kind != 'X':
                f.append(Field(names[i], pos, pos + w, kind, d))
                i += 1
            pos += w
        if i != len(names):
            raise ValueError('reference record %s: %d names for %d fields' % (rec, len(names), i))
        _fields_cache[rec] = f
    return f


def record_width(rec):
    return sum(w for k, w, d in parse_format(RECORDS[rec][0]))


def sig_digits(rec, name):
    """Significant digits a real field carries when a Fortran program prints it (Ew.d -> d digits)."""
    for f in fields(rec):
        if f.name == name:
            return f.d
    raise KeyError((rec, name))


class RefReadError(Exception):
    """The bytes are not a record a Fortran formatted READ with the reference format accepts."""

    def __init__(self, rec, field, text, line):
        Exception.__init__(self, 'record %s field %s: %r is not readable (line %r)' % (rec, field, text, line))
        self.rec, self.field, self.text, self.line = rec, field, text, line


def slice_record(line, rec):
    """Values of one written record, by reference columns.  A short record is blank-padded (Fortran
    formatted READ pads); blank numeric field -> None; text fields keep their full width."""
    line = line.rstrip('\r\n')
    out = []
    for f in fields(rec):
        text = line[f.start:f.end].ljust(f.width)
        if f.kind == 'A':
            out.append(text)
        elif f.kind == 'I':
            v = fortnum.parse_int(text)
            if v is None:
                raise RefReadError(rec, f.name, text, line)
            out.append(None if v == 'blank' else v)
        else:
            v = fortnum.parse_real(text)
            if v is None:
                raise RefReadError(rec, f.name, text, line)
            out.append(None if v[0] == 'blank' else v[0])
    return out


def slice_dict(line, rec):
    return dict(zip([f.name for f in fields(rec)], slice_record(line, rec)))


def beyond_record(line, rec):
    """Non-blank text after the last reference column of the record (a spill)."""
    return line.rstrip('\r\n')[record_width(rec):].strip()


def norm_name(name):
    """Block / generator names are (A3, I2): 'ab1 5' and 'ab105' are the same name.  Canonical form:
    three characters + the integer right-justified in two columns when columns 4-5 are numeric."""
    if name is None:
        return None
    name = name.ljust(5)
    tail = name[3:5]
    t = tail.strip()
    if t.isdigit() and len(name) == 5:
        return name[:3] + '%2d' % int(t)
    return name


def blank(s):
    return s is None or s.strip() == ''


# --------------------------------------------------------------------------------------------------
# reference reader


class _Lines(object):
    def __init__(self, text):
        self.lines = text.split('\n')
        if self.lines and self.lines[-1] == '':
            self.lines.pop()
        self.i = 0

    def more(self):
        return self.i < len(self.lines)

    def peek(self):
        return self.lines[self.i] if self.i < len(self.lines) else None

    def next(self):
        if self.i >= len(self.lines):
            raise RefReadError('eof', '-', '', '<end of file>')
        s = self.lines[self.i]
        self.i += 1
        return s


def _trim(vals):
    vals = list(vals)
    while vals and vals[-1] is None:
        vals.pop()
    return vals


def _read_list(L, rec, n, per):
    """n values written per-to-a-line."""
    out = []
    nlines = (n + per - 1) // per
    for _ in range(nlines):
        out += slice_record(L.next(), rec)
    return out[:n], out[n:]


def _rocks(L, xp):
    p = 'xp:' if xp else ''
    rocks = []
    while L.more():
        line = L.next()
        if not line.strip():
            break
        r = slice_dict(line, p + 'rocks1')
        nad = r['nad'] or 0
        if nad >= 1:
            r['l1'] = slice_dict(L.next(), p + 'rocks1.1')
        if nad >= 2:
            a = slice_record(L.next(), p + 'rocks1.2')
            r['rp'] = {'type': a[0], 'parameters': a[1:]}
            a = slice_record(L.next(), p + 'rocks1.3')
            r['cp'] = {'type': a[0], 'parameters': a[1:]}
        rocks.append(r)
    return rocks


def _eleme(L, xp):
    out = []
    while L.more():
        line = L.next()
        if not line.strip():
            break
        b = slice_dict(line, ('xp:' if xp else '') + 'eleme')
        b['name'] = norm_name(b['name'])
        out.append(b)
    return out


def _conne(L, xp):
    out = []
    while L.more():
        line = L.next()
        if not line.strip() or line.startswith('+++'):
            break
        c = slice_dict(line, ('xp:' if xp else '') + 'conne')
        c['block1'], c['block2'] = norm_name(c['block1']), norm_name(c['block2'])
        out.append(c)
    return out


def _gener(L, xp):
    p = 'xp:' if xp else ''
    out = []
    while L.more():
        line = L.next()
        if not line.strip():
            break
        g = slice_dict(line, p + 'gener1')
        g['block'], g['name'] = norm_name(g['block']), norm_name(g['name'])
        g['time'], g['rate'], g['enthalpy'] = [], [], []
        n = abs(g['ltab'] or 0)
        if n > 1 and g['type'] != 'DELV':
            g['time'], rest = _read_list(L, p + 'gener_table', n, 4)
            g['rate'], rest = _read_list(L, p + 'gener_table', n, 4)
            if not blank(g['itab']):
                g['enthalpy'], rest = _read_list(L, p + 'gener_table', n, 4)
        out.append(g)
    return out


def _rpcap(L, xp):
    p = 'xp:' if xp else ''
    a = slice_record(L.next(), p + 'rpcap')
    b = slice_record(L.next(), p + 'rpcap')
    return {'rp': {'type': a[0], 'parameters': a[1:]}, 'cp': {'type': b[0], 'parameters': b[1:]}}


def _is_keyword_line(line):
    return line[:5].rstrip() in SECTION_KEYWORDS or line[:5] in END_KEYWORDS


def _param(L, flavour):
    p = slice_dict(L.next(), 'param1:' + flavour)
    p.update(slice_dict(L.next(), 'param2'))
    p['timestep'] = None
    dt = p['const_timestep']
    if dt is not None and dt < 0:
        n = int(-dt)
        vals = []
        for _ in range(n):
            vals += slice_record(L.next(), 'timestep')
        p['timestep'] = [v for v in vals if v is not None]
    p.update(slice_dict(L.next(), 'param3'))
    # PARAM.4: default initial conditions, four to a record; continuation records until a blank record
    # or the next keyword
    # (positions count: a blank field inside the list is an absent value at that position; only the
    # blanks after the last value are no values)
    inc = slice_record(L.next(), 'param4')
    while L.more():
        nxt = L.peek()
        if not nxt.strip():
            L.next()
            break
        if _is_keyword_line(nxt):
            break
        inc += slice_record(L.next(), 'param4')
    p['default_incons'] = _trim(inc)
    return p


def _meshm(L):
    out = []
    while L.more():
        line = L.next()
        if not line.strip():
            break
        kw = line[:5].strip()
        if kw == 'RZ2D':
            subs = []
            while True:
                k = L.next()[:5].strip()
                if k == 'RADII':
                    n = slice_record(L.next(), 'radii1')[0]
                    vals, rest = _read_list(L, 'radii2', n, 8)
                    subs.append(('radii', {'radii': vals}))
                elif k == 'EQUID':
                    subs.append(('equid', slice_dict(L.next(), 'equid')))
                elif k == 'LOGAR':
                    subs.append(('logar', slice_dict(L.next(), 'logar')))
                elif k == 'LAYER':
                    n = slice_record(L.next(), 'layer1')[0]
                    vals, rest = _read_list(L, 'layer2', n, 8)
                    subs.append(('layer', {'layer': vals}))
                    break
                else:
                    raise RefReadError('rz2d', 'keyword', k, k)
            out.append(('rz2d', subs))
        elif kw == 'XYZ':
            deg = slice_record(L.next(), 'xyz1')[0]
            subs = []
            while L.more():
                ln = L.next()
                if not ln.strip():
                    break
                s = slice_dict(ln, 'xyz2')
                if s['del'] is not None and s['del'] == 0:
                    s['deli'], rest = _read_list(L, 'xyz3', s['no'], 8)
                subs.append(s)
            out.append(('xyz', {'deg': deg, 'sub': subs}))
        elif kw == 'MINC':
            a = slice_dict(L.next(), 'minc1')
            b = slice_record(L.next(), 'part1')
            nvol = b[1]
            vol, rest = _read_list(L, 'part2', nvol, 8)
            out.append(('minc', {'type': a['type'], 'dual': a['dual'], 'num_continua': b[0], 'where': b[2],
                                 'spacing': b[3:], 'vol': vol}))
        else:
            raise RefReadError('meshm', 'keyword', kw, line)
    return out


def _short(L, head):
    s = {'frequency': slice_record(head, 'short')[1]}
    line = L.next()
    while line.strip():
        kw = line[:5]
        if kw not in ('ELEME', 'CONNE', 'GENER'):
            raise RefReadError('short', 'keyword', kw, line)
        key = {'ELEME': 'block', 'CONNE': 'connection', 'GENER': 'generator'}[kw]
        items = []
        while True:
            line = L.next()
            if not line.strip() or line[:5] in ('ELEME', 'CONNE', 'GENER'):
                break
            if key == 'block':
                items.append(norm_name(slice_record(line, 'short_block')[0]))
            else:
                a, b = slice_record(line, 'short_pair')
                items.append((norm_name(a), norm_name(b)))
        s[key] = items
    return s


def _name_list(L, rec):
    out = []
    while L.more():
        line = L.next()
        if not line.strip():
            break
        v = [norm_name(x) for x in slice_record(line, rec)]
        out.append(v[0] if len(v) == 1 else tuple(v))
    return out


def read_main(text, flavour=None):
    """Reference reader of a main data file.  -> (model, sequence of section keywords, end keyword).
    flavour None: AUTOUGH2 when a SIMUL section comes before the flavour-dependent records."""
    L = _Lines(text)
    M = {'title': L.next().rstrip() if L.more() else ''}
    seq = []
    end = None
    fl = flavour
    while L.more():
        line = L.next()
        kw = line[:5].rstrip()
        if kw in END_KEYWORDS:
            end = kw
            break
        if kw not in SECTION_KEYWORDS:
            continue
        seq.append(kw)
        cur = fl or ('AUTOUGH2' if 'SIMUL' in M else 'TOUGH2')
        if kw == 'SIMUL':
            M['SIMUL'] = slice_record(L.next(), 'simul')[0].rstrip()
        elif kw == 'ROCKS':
            M['ROCKS'] = _rocks(L, False)
        elif kw == 'PARAM':
            M['PARAM'] = _param(L, cur)
        elif kw == 'MOMOP':
            M['MOMOP'] = slice_record(L.next(), 'momop')[0]
        elif kw in ('START', 'NOVER'):
            M[kw] = True
        elif kw == 'RPCAP':
            M['RPCAP'] = _rpcap(L, False)
        elif kw == 'LINEQ':
            M['LINEQ'] = slice_dict(L.next(), 'lineq')
        elif kw == 'SOLVR':
            M['SOLVR'] = slice_dict(L.next(), 'solvr')
        elif kw == 'MULTI':
            M['MULTI'] = slice_dict(L.next(), 'multi:' + cur)
        elif kw == 'TIMES':
            t = slice_dict(L.next(), 'times1')
            n = t['num_times_specified'] or 0
            vals, rest = _read_list(L, 'times2', n, 8)
            t['time'] = vals
            M['TIMES'] = t
        elif kw == 'SELEC':
            ints = slice_record(L.next(), 'selec1')
            fl_ = []
            for _ in range(ints[0] or 0):
                fl_ += slice_record(L.next(), 'selec2')
            M['SELEC'] = {'integer': ints, 'float': fl_}
        elif kw == 'DIFFU':
            mu = M.get('MULTI') or {}
            nk, nph = mu.get('num_components'), mu.get('num_phases')
            if nk is None or nph is None:
                raise RefReadError('diffu', 'MULTI', '', 'DIFFU without NK/NPH')
            M['DIFFU'] = [slice_record(L.next(), 'diffu')[:nph] for _ in range(nk)]
        elif kw == 'ELEME':
            M['ELEME'] = _eleme(L, False)
        elif kw == 'CONNE':
            M['CONNE'] = _conne(L, False)
        elif kw == 'MESHM':
            M['MESHM'] = _meshm(L)
        elif kw == 'GENER':
            M['GENER'] = _gener(L, False)
        elif kw == 'SHORT':
            M['SHORT'] = _short(L, line)
        elif kw == 'FOFT':
            M['FOFT'] = _name_list(L, 'foft')
        elif kw == 'COFT':
            M['COFT'] = _name_list(L, 'coft')
        elif kw == 'GOFT':
            M['GOFT'] = _name_list(L, 'goft')
        elif kw == 'INCON':
            inc = {}
            while L.more():
                ln = L.next()
                if not ln.strip():
                    break
                a = slice_dict(ln, 'incon1')
                a['block'] = norm_name(a['block'])
                a['variables'] = _trim(slice_record(L.next(), 'incon2'))
                inc[a['block']] = a
            M['INCON'] = inc
        elif kw == 'INDOM':
            ind = {}
            while L.more():
                ln = L.next()
                if not ln.strip():
                    break
                rock = slice_record(ln, 'indom1')[0]
                ind[rock] = _trim(slice_record(L.next(), 'indom2'))
            M['INDOM'] = ind
    return M, seq, end


def read_mesh(text):
    """Reference reader of an ASCII MESH side file -> (model with ELEME/CONNE, sequence)."""
    L = _Lines(text)
    M, seq = {}, []
    while L.more():
        kw = L.next()[:5]
        if kw == 'ELEME':
            M['ELEME'] = _eleme(L, False)
            seq.append('ELEME')
        elif kw == 'CONNE':
            M['CONNE'] = _conne(L, False)
            seq.append('CONNE')
    return M, seq


def read_pdat(text):
    """Reference reader of the extra-precision companion file -> (model, sequence)."""
    L = _Lines(text)
    M, seq = {}, []
    while L.more():
        kw = L.next()[:5]
        if kw in END_KEYWORDS:
            break
        if kw == 'ROCKS':
            M['ROCKS'] = _rocks(L, True)
        elif kw == 'ELEME':
            M['ELEME'] = _eleme(L, True)
        elif kw == 'CONNE':
            M['CONNE'] = _conne(L, True)
        elif kw == 'RPCAP':
            M['RPCAP'] = _rpcap(L, True)
        elif kw == 'GENER':
            M['GENER'] = _gener(L, True)
        else:
            continue
        seq.append(kw)
    return M, seq


def _frecs(data):
    """Records of a Fortran sequential unformatted file (4-byte length before and after)."""
    out, i = [], 0
    while i < len(data):
        (n,) = struct.unpack_from('i', data, i)
        body = data[i + 4:i + 4 + n]
        (n2,) = struct.unpack_from('i', data, i + 4 + n)
        if n2 != n or len(body) != n:
            raise RefReadError('unformatted', 'length', '%d/%d' % (n, n2), 'record %d' % len(out))
        out.append(body)
        i += 8 + n
    return out


def read_binary_mesh(a_bytes, b_bytes, rock_names):
    """Reference reader of a TOUGH2_MP MESHA/MESHB pair -> model with ELEME/CONNE.
    MESHA: NEL; EVOL; AHT; PMX; X; Y; Z; DEL1; DEL2; AREA; BETA; SIG; ISOX; ELEM1; ELEM2
    MESHB: NCON, (-)NEL; ELEM(8 chars); MATX (index, when NEL is negative) or rock names; NEX1; NEX2"""
    A, B = _frecs(a_bytes), _frecs(b_bytes)
    (nel,) = struct.unpack('i', A[0])
    ncon, nelb = struct.unpack('2i', B[0])
    by_index = nelb < 0
    nelb = abs(nelb)
    if nel != nelb:
        raise RefReadError('meshb', 'nel', '%d/%d' % (nel, nelb), '')
    dbl = lambda rec, n: list(struct.unpack('%dd' % n, rec))
    evol, aht, pmx, x, y, z = [dbl(A[i], nel) for i in range(1, 7)]
    d1, d2, area, beta, sig = [dbl(A[i], ncon) for i in range(7, 12)]
    isox = list(struct.unpack('%di' % ncon, A[12]))
    names = [B[1][8 * i:8 * i + 8].decode() for i in range(nel)]
    if by_index:
        rocks = [rock_names[i - 1] for i in struct.unpack('%di' % nel, B[2])]
    else:
        rocks = [B[2][5 * i:5 * i + 5].decode() for i in range(nel)]
    n1 = struct.unpack('%di' % ncon, B[3])
    n2 = struct.unpack('%di' % ncon, B[4])
    if len(A) >= 15:
        e1 = [A[13][8 * i:8 * i + 8].decode() for i in range(ncon)]
        e2 = [A[14][8 * i:8 * i + 8].decode() for i in range(ncon)]
        for i in range(ncon):
            if e1[i] != names[n1[i] - 1] or e2[i] != names[n2[i] - 1]:
                raise RefReadError('mesha', 'elem1/elem2', '%r/%r' % (e1[i], e2[i]),
                                   'connection %d names disagree with NEX1/NEX2' % i)
    M = {'ELEME': [], 'CONNE': []}
    for i in range(nel):
        M['ELEME'].append({'name': norm_name(names[i][:5]), 'nseq': None, 'nadd': None, 'rocktype': rocks[i],
                           'volume': evol[i], 'ahtx': aht[i], 'pmx': pmx[i], 'x': x[i], 'y': y[i], 'z': z[i]})
    for i in range(ncon):
        M['CONNE'].append({'block1': norm_name(names[n1[i] - 1][:5]), 'block2': norm_name(names[n2[i] - 1][:5]),
                           'nseq': None, 'nad1': None, 'nad2': None, 'direction': isox[i], 'distance1': d1[i],
                           'distance2': d2[i], 'area': area[i], 'dircos': beta[i], 'sigma': sig[i]})
    return M


# --------------------------------------------------------------------------------------------------
# reference writer (what a Fortran program's formatted WRITE with the reference formats puts out)


# how the reference writer prints reals: the legal variations between Fortran compilers (ref/fortnum.render_E):
# exponent letter E or D, blank instead of '+' in the exponent; the letter is dropped for 3-digit exponents
NUMBER_STYLE = {}
STYLES = {'E': {}, 'D': {'letter': 'D'}, 'blank-plus': {'exp_blank_plus': True}}


def set_number_style(name):
    NUMBER_STYLE.clear()
    NUMBER_STYLE.update(STYLES[name])


def put_record(vals, rec):
    """One record: Ew.d as 0.ddddE+ee (leading zero dropped when the sign needs its column), Iw and Aw
    right-/left-justified, None -> blanks.  Raises when a value does not fit (asterisks)."""
    flds = fields(rec)
    width = record_width(rec)
    buf = [' '] * width
    vals = list(vals) + [None] * (len(flds) - len(vals))
    for f, v in zip(flds, vals):
        if v is None:
            continue
        if f.kind == 'A':
            s = str(v)
            if len(s) > f.width:
                raise ValueError('%s.%s: %r wider than A%d' % (rec, f.name, v, f.width))
            s = s.ljust(f.width)
        elif f.kind == 'I':
            s = fortnum.render_I(int(v), f.width)
        else:
            s = fortnum.render_E(float(v), f.width, f.d, **NUMBER_STYLE)
        if '*' in s:
            raise ValueError('%s.%s: %r does not fit' % (rec, f.name, v))
        buf[f.start:f.end] = list(s)
    # a formatted WRITE puts out the whole record, blank fields included: nothing is trimmed (a trimmed record
    # would shorten a name that ends in blanks)
    return ''.join(buf)


def _put_list(out, vals, rec, per):
    vals = list(vals)
    for i in range(0, len(vals), per):
        out.append(put_record(vals[i:i + per], rec))


def _w_rocks(out, rocks, xp):
    p = 'xp:' if xp else ''
    out.append('ROCKS')
    for r in rocks:
        out.append(put_record([r.get(k) for k in RECORDS['rocks1'][1]], p + 'rocks1'))
        nad = r.get('nad') or 0
        if nad >= 1:
            l1 = r.get('l1') or {}
            out.append(put_record([l1.get(k) for k in RECORDS['rocks1.1'][1]], p + 'rocks1.1'))
        if nad >= 2:
            for key, rec in (('rp', 'rocks1.2'), ('cp', 'rocks1.3')):
                d = r.get(key) or {}
                out.append(put_record([d.get('type')] + list(d.get('parameters') or []), p + rec))
    out.append('')


def _w_eleme(out, blocks, xp):
    out.append('ELEME')
    for b in blocks:
        out.append(put_record([b.get(k) for k in RECORDS['eleme'][1]], ('xp:' if xp else '') + 'eleme'))
    out.append('')


def _w_conne(out, cons, xp):
    out.append('CONNE')
    for c in cons:
        out.append(put_record([c.get(k) for k in RECORDS['conne'][1]], ('xp:' if xp else '') + 'conne'))
    out.append('')


def _w_gener(out, gens, xp):
    p = 'xp:' if xp else ''
    out.append('GENER')
    for g in gens:
        out.append(put_record([g.get(k) for k in RECORDS['gener1'][1]], p + 'gener1'))
        n = abs(g.get('ltab') or 0)
        if n > 1 and g.get('type') != 'DELV':
            _put_list(out, g['time'][:n], p + 'gener_table', 4)
            _put_list(out, g['rate'][:n], p + 'gener_table', 4)
            if not blank(g.get('itab')):
                _put_list(out, g['enthalpy'][:n], p + 'gener_table', 4)
    out.append('')


def _w_rpcap(out, rp, xp):
    p = 'xp:' if xp else ''
    out.append('RPCAP')
    for key in ('rp', 'cp'):
        d = rp.get(key) or {}
        out.append(put_record([d.get('type')] + list(d.get('parameters') or []), p + 'rpcap'))


def write_main(M, sections, flavour, end_keyword='ENDCY'):
    """Text of a main data file holding 'sections' (in that order) of model M."""
    out = [M.get('title', '')]
    for kw in sections:
        c = M.get(kw)
        if kw == 'SIMUL':
            out += ['SIMUL', c]
        elif kw == 'ROCKS':
            _w_rocks(out, c or [], False)
        elif kw == 'PARAM':
            out.append('PARAM')
            out.append(put_record([c.get(k) for k in RECORDS['param1:' + flavour][1]], 'param1:' + flavour))
            out.append(put_record([c.get(k) for k in RECORDS['param2'][1]], 'param2'))
            dt = c.get('const_timestep')
            if dt is not None and dt < 0:
                n = int(-dt)
                ts = list(c.get('timestep') or [])
                for i in range(n):
                    out.append(put_record(ts[8 * i:8 * i + 8], 'timestep'))
            out.append(put_record([c.get(k) for k in RECORDS['param3'][1]], 'param3'))
            inc = list(c.get('default_incons') or [])
            if inc:
                _put_list(out, inc, 'param4', 4)
            else:
                out.append('')
        elif kw == 'MOMOP':
            out += ['MOMOP', c]
        elif kw in ('START', 'NOVER'):
            out.append(kw)
        elif kw == 'RPCAP':
            _w_rpcap(out, c, False)
        elif kw == 'LINEQ':
            out += ['LINEQ', put_record([c.get(k) for k in RECORDS['lineq'][1]], 'lineq')]
        elif kw == 'SOLVR':
            out += ['SOLVR', put_record([c.get(k) for k in RECORDS['solvr'][1]], 'solvr')]
        elif kw == 'MULTI':
            rec = 'multi:' + flavour
            out += ['MULTI', put_record([c.get(k) for k in RECORDS[rec][1]], rec)]
        elif kw == 'TIMES':
            out += ['TIMES', put_record([c.get(k) for k in RECORDS['times1'][1]], 'times1')]
            n = c.get('num_times_specified') or 0
            _put_list(out, list(c.get('time') or [])[:n], 'times2', 8)
        elif kw == 'SELEC':
            ints = list(c['integer'])
            out += ['SELEC', put_record(ints, 'selec1')]
            fl = list(c.get('float') or [])
            for i in range(ints[0] or 0):
                out.append(put_record(fl[8 * i:8 * i + 8], 'selec2'))
        elif kw == 'DIFFU':
            out.append('DIFFU')
            for comp in c:
                out.append(put_record(comp, 'diffu'))
        elif kw == 'ELEME':
            _w_eleme(out, c or [], False)
        elif kw == 'CONNE':
            _w_conne(out, c or [], False)
        elif kw == 'MESHM':
            out.append('MESHMAKER')
            for typ, sec in c:
                if typ == 'rz2d':
                    out.append('RZ2D')
                    for st, sub in sec:
                        out.append(st.upper())
                        if st == 'radii':
                            out.append(put_record([len(sub['radii'])], 'radii1'))
                            _put_list(out, sub['radii'], 'radii2', 8)
                        elif st == 'layer':
                            out.append(put_record([len(sub['layer'])], 'layer1'))
                            _put_list(out, sub['layer'], 'layer2', 8)
                        else:
                            out.append(put_record([sub.get(k) for k in RECORDS[st][1]], st))
                elif typ == 'xyz':
                    out += ['XYZ', put_record([sec['deg']], 'xyz1')]
                    for sub in sec['sub']:
                        out.append(put_record([sub.get(k) for k in RECORDS['xyz2'][1]], 'xyz2'))
                        if sub.get('del') is not None and sub['del'] == 0:
                            _put_list(out, sub['deli'][:sub['no']], 'xyz3', 8)
                    out.append('')
                elif typ == 'minc':
                    out += ['MINC', put_record(['PART ', sec['type'], sec['dual']], 'minc1')]
                    out.append(put_record([sec['num_continua'], len(sec['vol']), sec['where']] +
                                          list(sec['spacing']), 'part1'))
                    _put_list(out, sec['vol'], 'part2', 8)
            out.append('')
        elif kw == 'GENER':
            _w_gener(out, c, False)
        elif kw == 'SHORT':
            out.append(put_record(['SHORT', c.get('frequency')], 'short'))
            for key, k5 in (('block', 'ELEME'), ('connection', 'CONNE'), ('generator', 'GENER')):
                if key in c and c[key] is not None:
                    out.append(k5)
                    for it in c[key]:
                        out.append(it if key == 'block' else it[0] + it[1])
            out.append('')
        elif kw in ('FOFT', 'GOFT'):
            out.append(kw)
            out += list(c)
            out.append('')
        elif kw == 'COFT':
            out.append(kw)
            out += [a + b for a, b in c]
            out.append('')
        elif kw == 'INCON':
            out.append('INCON')
            for name, a in c.items():
                out.append(put_record([name, a.get('nseq'), a.get('nadd'), a.get('porosity')], 'incon1'))
                out.append(put_record(a.get('variables') or [], 'incon2'))
            out.append('')
        elif kw == 'INDOM':
            out.append('INDOM')
            for rock, vals in c.items():
                out.append(rock)
                out.append(put_record(vals, 'indom2'))
            out.append('')
    out.append(end_keyword)
    return '\n'.join(out) + '\n'


def write_mesh(M):
    out = []
    _w_eleme(out, M.get('ELEME') or [], False)
    _w_conne(out, M.get('CONNE') or [], False)
    return '\n'.join(out) + '\n'


def write_pdat(M, xp_sections):
    out = []
    for kw in xp_sections:
        c = M.get(kw)
        if kw == 'ROCKS':
            _w_rocks(out, c or [], True)
        elif kw == 'ELEME':
            _w_eleme(out, c or [], True)
        elif kw == 'CONNE':
            _w_conne(out, c or [], True)
        elif kw == 'RPCAP' and c:
            _w_rpcap(out, c, True)
        elif kw == 'GENER' and c:
            _w_gener(out, c, True)
    return '\n'.join(out) + '\n'
