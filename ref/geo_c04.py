"""Exact reference for C04 (geometry -> TOUGH2 grid).

Everything is computed with fractions.Fraction from the geometry's *raw* data only - node positions,
the node lists of the columns, a column centre where the geometry records one, the connection list
(pairs of column names), layer bottoms and centres, column surfaces and the header options.  The floats
held by the geometry are converted exactly (Fraction(float) is exact), so the reference has no round-off
of its own whatever the coordinates are (multiples of 1/100, or the result of a rotation); only the final
square roots are rounded once (<= 1 ulp).

No method of mulgrid / column / geometry.py is used.  The definitions are those of the property statement
and of the format documentation (doc/source/mulformat.rst, mulgrids.rst):

  column area        shoelace formula on the column's node positions (absolute value)
  column centre      the recorded centre when the geometry specifies one, else the polygon centroid
  layer top          bottom of the layer above (the format carries only bottom and centre)
  block exists       column surface above the layer bottom
  top block          highest layer whose bottom is below the surface; its top is the column surface
                     (also when the surface is above the top layer), every other block ends at the layer top
  block centre       (column centre, layer centre as recorded), or midway between layer bottom and surface for a
                     top block whose surface is lower than the layer top (documented in block_centre); a block
                     whose column surface is exactly at the layer top is a full block and has the layer centre
  shared edge        the two nodes common to both columns (adjacent in both node rings)
"""
from fractions import Fraction as F
import math


class RefError(Exception):
    """The input is not a geometry the reference is defined for (harness problem, not a library one)."""


def fr(x):
    return F(float(x))


def fsqrt(q):
    """sqrt of a non-negative Fraction, as a float (error <= 1 ulp)."""
    if q < 0:
        raise RefError('sqrt of negative')
    if q == 0:
        return 0.0
    try:
        return math.sqrt(q)
    except OverflowError:
        raise RefError('sqrt overflow')


class Raw(object):
    """Raw data of a geometry: nothing derived."""
    __slots__ = ('nodes', 'cols', 'cons', 'layers', 'convention', 'atmosphere_type', 'atmosphere_volume',
                 'atmosphere_connection', 'permeability_angle', 'gdcx', 'gdcy', 'block_order')


def extract(geo):
    """Copies the raw data out of a mulgrid object (attribute reads only)."""
    r = Raw()
    r.nodes = {}
    for n in geo.nodelist:
        r.nodes[n.name] = (fr(n.pos[0]), fr(n.pos[1]))
    r.cols = []
    for c in geo.columnlist:
        centre = None
        if c.centre_specified:
            centre = (fr(c.centre[0]), fr(c.centre[1]))
        r.cols.append({'name': c.name, 'nodes': [n.name for n in c.node], 'centre': centre})
    r.cons = [(con.column[0].name, con.column[1].name) for con in geo.connectionlist]
    r.layers = [(lay.name, fr(lay.bottom), fr(lay.centre)) for lay in geo.layerlist]
    r.convention = geo.convention
    return r


def surfaces_of(geo):
    """Column surfaces as the geometry holds them (None = default = bottom of the atmosphere layer)."""
    return [None if c.surface is None else fr(c.surface) for c in geo.columnlist]


def polygon_area2(pts):
    """Twice the signed area."""
    n = len(pts)
    s = F(0)
    for i in range(n):
        x1, y1 = pts[i]
        x2, y2 = pts[(i + 1) % n]
        s += x1 * y2 - x2 * y1
    return s


def polygon_centroid(pts):
    n = len(pts)
    a2 = polygon_area2(pts)
    if a2 == 0:
        raise RefError('degenerate column')
    cx = cy = F(0)
    for i in range(n):
        x1, y1 = pts[i]
        x2, y2 = pts[(i + 1) % n]
        t = x1 * y2 - x2 * y1
        cx += (x1 + x2) * t
        cy += (y1 + y2) * t
    return (cx / (3 * a2), cy / (3 * a2))


def shared_edge(nodes_a, nodes_b):
    """The edge (pair of node names) two columns share: exactly two common nodes, adjacent in both rings."""
    common = [n for n in nodes_a if n in set(nodes_b)]
    if len(common) != 2:
        raise RefError('columns share %d nodes' % len(common))

    def adjacent(ring, p, q):
        i, j = ring.index(p), ring.index(q)
        return (i - j) % len(ring) in (1, len(ring) - 1)
    if not (adjacent(nodes_a, *common) and adjacent(nodes_b, *common)):
        raise RefError('shared nodes are not an edge')
    return common


def compose_name(convention, layername, colname):
    """Block name of (layer, column) under the four documented conventions; TOUGH2 reads names as (a3, i2),
    so a blank 4th character between digits becomes '0'."""
    if convention in (0, 3):
        name = colname[0:3] + layername[0:2]
    elif convention == 1:
        name = layername[0:3] + colname[0:2]
    else:
        name = layername[0:2] + colname[0:3]
    if len(name) == 5 and name[2].isdigit() and name[4].isdigit() and name[3] == ' ':
        name = name[0:3] + '0' + name[4]
    return name


class Static(object):
    """Everything that does not depend on surfaces or header options."""

    def __init__(self, raw):
        self.raw = raw
        self.colnames = [c['name'] for c in raw.cols]
        self.area = []
        self.centre = []
        for c in raw.cols:
            pts = [raw.nodes[n] for n in c['nodes']]
            if len(pts) < 3:
                raise RefError('column with %d nodes' % len(pts))
            a2 = polygon_area2(pts)
            self.area.append(abs(a2) / 2)
            self.centre.append(c['centre'] if c['centre'] is not None else polygon_centroid(pts))
        idx = dict((n, i) for i, n in enumerate(self.colnames))
        if len(idx) != len(self.colnames):
            raise RefError('duplicate column names')
        self.hcons = []
        for (na, nb) in raw.cons:
            ia, ib = idx[na], idx[nb]
            e = shared_edge(raw.cols[ia]['nodes'], raw.cols[ib]['nodes'])
            p, q = raw.nodes[e[0]], raw.nodes[e[1]]
            ex, ey = q[0] - p[0], q[1] - p[1]
            len2 = ex * ex + ey * ey
            if len2 == 0:
                raise RefError('zero-length edge')
            dist = []
            for i in (ia, ib):
                cx, cy = self.centre[i]
                cross = ex * (cy - p[1]) - ey * (cx - p[0])
                dist.append(fsqrt(cross * cross / len2))
            dx = self.centre[ib][0] - self.centre[ia][0]
            dy = self.centre[ib][1] - self.centre[ia][1]
            self.hcons.append({'a': ia, 'b': ib, 'length': fsqrt(len2), 'len2': len2,
                               'dist': dist, 'dx': dx, 'dy': dy, 'dxy2': dx * dx + dy * dy})
        lays = raw.layers
        self.nlay = len(lays)
        self.bottom = [l[1] for l in lays]
        self.lcentre = [l[2] for l in lays]
        self.top = [lays[0][1]] + [lays[k - 1][1] for k in range(1, len(lays))]
        for k in range(1, self.nlay):
            if not self.bottom[k] < self.top[k]:
                raise RefError('layers not descending')
        self.lname = [l[0] for l in lays]
        # layers whose recorded centre is not their mid-point (to within round-off of forming the mid-point)
        self.offmid = [False] + [abs(self.lcentre[k] - (self.top[k] + self.bottom[k]) / 2) >
                                 (self.top[k] - self.bottom[k]) / 10 ** 9 for k in range(1, len(lays))]
        self.fcentre = [(float(c[0]), float(c[1])) for c in self.centre]
        self.farea = [float(a) for a in self.area]


def direction_set(dx, dy, angle_deg):
    """Permeability direction(s) acceptable for a horizontal centre-to-centre vector: the axis (first axis
    'angle' degrees anti-clockwise from x) with the larger component; both when they tie to 1e-9."""
    a = math.radians(angle_deg)
    c, s = math.cos(a), math.sin(a)
    x, y = float(dx), float(dy)
    u = abs(c * x + s * y)
    v = abs(-s * x + c * y)
    if abs(u - v) <= 1e-9 * max(u, v):
        return (1, 2)
    return (1,) if u > v else (2,)


def expected(st, surfaces, atmosphere_type, atmosphere_connection, permeability_angle):
    """Reference grid.  surfaces: Fraction or None per column.
    Returns (blocks, conns, rockvol):
      blocks: underground blocks in layer, column order:
              dict(layer, col, name, volume, z, kind in {'interior','top-below','top-at','top-above'})
      conns : dict(kind 'atm'|'vert'|'horiz', names (n1, n2) [second None for the single atmosphere block],
              area, dist (d1, d2) | None, dsum | None, cos, dz, dirs, cls)
      rockvol: sum over columns of area x (surface - bottom of lowest layer)
    Atmosphere blocks for type 1 are named (layer 0, column)."""
    raw = st.raw
    conv = raw.convention
    ncol = len(st.colnames)
    surf = [st.bottom[0] if s is None else s for s in surfaces]
    lowest = st.bottom[-1]
    for s in surf:
        if not s > lowest:
            raise RefError('surface not above the bottom of the geometry')
    # which layer is the top block of each column
    topk = []
    for i in range(ncol):
        k = 1
        while not surf[i] > st.bottom[k]:
            k += 1
        topk.append(k)
    blocks = []
    bindex = {}
    height = {}
    zc = {}
    for k in range(1, st.nlay):
        for i in range(ncol):
            if not surf[i] > st.bottom[k]:
                continue
            if k == topk[i]:
                btop = surf[i]
                if surf[i] > st.top[k]:
                    kind = 'top-above'
                    z = st.lcentre[k]
                elif surf[i] == st.top[k]:
                    # documented rule (block_centre): the layer centre, except for surface blocks with the
                    # column surface LOWER than the layer top - a surface exactly at the top is a full block
                    kind = 'top-at'
                    z = st.lcentre[k]
                else:
                    kind = 'top-below'
                    z = (st.bottom[k] + surf[i]) / 2
            else:
                btop = st.top[k]
                kind = 'interior'
                z = st.lcentre[k]
            h = btop - st.bottom[k]
            height[(k, i)] = h
            zc[(k, i)] = z
            bindex[(k, i)] = len(blocks)
            blocks.append({'layer': k, 'col': i, 'name': compose_name(conv, st.lname[k], st.colnames[i]),
                           'volume': float(st.area[i] * h), 'z': float(z), 'kind': kind})
    rockvol = float(sum(st.area[i] * (surf[i] - lowest) for i in range(ncol)))
    conns = []
    for k in range(1, st.nlay):
        present = [i for i in range(ncol) if surf[i] > st.bottom[k]]
        for i in present:
            this = blocks[bindex[(k, i)]]['name']
            if k == topk[i]:
                if atmosphere_type == 0:
                    above = None
                elif atmosphere_type == 1:
                    above = compose_name(conv, st.lname[0], st.colnames[i])
                else:
                    continue
                conns.append({'kind': 'atm', 'names': (this, above), 'area': st.farea[i],
                              'dist': (float(surf[i] - zc[(k, i)]), float(atmosphere_connection)),
                              'dsum': None, 'cos': -1.0, 'dz': None, 'dirs': (3,),
                              'cls': blocks[bindex[(k, i)]]['kind']})
            else:
                above = blocks[bindex[(k - 1, i)]]['name']
                conns.append({'kind': 'vert', 'names': (this, above), 'area': st.farea[i], 'dist': None,
                              'dsum': float(zc[(k - 1, i)] - zc[(k, i)]), 'cos': -1.0, 'dz': None,
                              'dirs': (3,), 'cls': 'under-' + blocks[bindex[(k - 1, i)]]['kind']})
        pres = set(present)
        for hc in st.hcons:
            a, b = hc['a'], hc['b']
            if a not in pres or b not in pres:
                continue
            h = min(height[(k, a)], height[(k, b)])
            dz = zc[(k, b)] - zc[(k, a)]
            if dz == 0:
                cosv = 0.0
            else:
                cosv = -float(dz) / fsqrt(hc['dxy2'] + dz * dz)
            conns.append({'kind': 'horiz',
                          'names': (blocks[bindex[(k, a)]]['name'], blocks[bindex[(k, b)]]['name']),
                          'area': hc['length'] * float(h), 'dist': (hc['dist'][0], hc['dist'][1]),
                          'dsum': None, 'cos': cosv, 'dz': float(dz),
                          'dirs': direction_set(hc['dx'], hc['dy'], permeability_angle),
                          'cls': ('equal-elevation' if dz == 0 else 'beside-truncated') +
                                 ('+surface-at-layer-top' if st.offmid[k] and 'top-at' in
                                  (blocks[bindex[(k, a)]]['kind'], blocks[bindex[(k, b)]]['kind']) else '')})
    return blocks, conns, rockvol
