"""Harness helpers shared by the listing checks C06 and C07 (not a reference model: plumbing).

* shipped()            - the 37 shipped listing files
* CountingFile         - stand-in for t2listing._file that counts readline calls against a budget, the
                         deterministic definition of 'does not terminate' (never wall clock)
* open_listing()       - open a listing quietly with the counting file installed
* Pristine             - 'fresh open' made cheap: a pristine freshly opened listing is kept per path and
                         every request gets an independent deep copy of it (own file handle, own tables,
                         bound methods re-bound); the copy is compared field by field with a genuinely
                         fresh open when the cache entry is made
* observe()/digest     - what the reader shows: index, time, step and a digest of every table
* truncated_copy()     - copy of a listing cut at a result-set header, in the worker's scratch directory
"""
import contextlib
import copy
import glob
import hashlib
import io
import os

import numpy as np

from mc import core
from . import navmodel

LISTING_ROOT = 'tests/listing'


def shipped():
    """[(key, path, size)] of the shipped listings, sorted by key ('TOUGH2/4/case4.out')."""
    root = os.path.join(core.REPO, LISTING_ROOT)
    out = []
    for p in sorted(glob.glob(os.path.join(root, '*', '*', '*'))):
        if p.endswith('.npy') or p.endswith('~') or not os.path.isfile(p):
            continue
        out.append((os.path.relpath(p, root), p, os.path.getsize(p)))
    return out


def path_of(key):
    return os.path.join(core.REPO, LISTING_ROOT, key)


class BudgetExceeded(Exception):
    """The library call made more readline calls than any terminating pass over the file could need."""


class CountingFile(object):
    """Delegates to the real binary file object and counts readline calls.

    budget      total readline calls allowed per library call (armed with arm()):
                20 x (lines in file) x (result sets + 2)
    eof_budget  consecutive readline calls returning nothing at end of file with no seek in between:
                4 x (lines in file) + 1000.  A loop driven by the file's content cannot need more reads at
                end of file than a few times the number of lines the file has; this trips earlier than
                the total budget on a loop that spins at end of file, and is just as deterministic."""

    def __init__(self, f, nlines, nsets):
        self._f = f
        self.budget = 20 * max(nlines, 1) * (nsets + 2)
        self.eof_budget = 4 * max(nlines, 1) + 1000
        self.calls = 0
        self.total = 0
        self.eof_run = 0
        self.armed = False

    def arm(self):
        self.calls = 0
        self.eof_run = 0
        self.armed = True

    def disarm(self):
        self.armed = False

    def readline(self, *a):
        self.calls += 1
        self.total += 1
        if self.armed and self.calls > self.budget:
            raise BudgetExceeded('more than %d readline calls in one library call' % self.budget)
        line = self._f.readline(*a)
        if line:
            self.eof_run = 0
        else:
            self.eof_run += 1
            if self.armed and self.eof_run > self.eof_budget:
                raise BudgetExceeded('more than %d consecutive reads at end of file' % self.eof_budget)
        return line

    def seek(self, *a):
        self.eof_run = 0
        return self._f.seek(*a)

    def tell(self):
        return self._f.tell()

    def close(self):
        return self._f.close()

    def __getattr__(self, name):
        return getattr(self._f, name)

    def __deepcopy__(self, memo):
        raise TypeError('CountingFile is re-created, never copied')


_scan_cache = {}


def scan_of(path):
    s = _scan_cache.get(path)
    if s is None:
        with open(path, 'rb') as f:
            s = navmodel.scan(f.read())
        _scan_cache[path] = s
    return s


def quiet():
    return contextlib.redirect_stdout(io.StringIO())


class OpenFailed(Exception):
    """Opening a listing did not return a reader: .kind is 'nontermination' or 'raises-<Type>'."""

    def __init__(self, kind, message):
        Exception.__init__(self, message)
        self.kind = kind


class _IoShim(object):
    """Stands in for the name 'io' inside the t2listing module while a listing is being opened, so that the
    reader's file is a CountingFile from its first read (the constructor makes several passes over the file
    and ends with first(): a loop there must be cut by the budget too, not by a clock)."""

    def __init__(self, real, nlines, nsets):
        self._real = real
        self._nlines, self._nsets = nlines, nsets
        self.made = None

    def open(self, *a, **kw):
        cf = CountingFile(self._real.open(*a, **kw), self._nlines, self._nsets)
        cf.arm()
        self.made = cf
        return cf

    def __getattr__(self, name):
        return getattr(self._real, name)


def open_listing(path, skip_tables=None):
    """Genuinely fresh open (the library parses the file) with the counting file in place from the start.
    Raises OpenFailed when the constructor exceeds the readline budget or raises."""
    import t2listing
    sc = scan_of(path)
    shim = _IoShim(io, sc.nlines, len(sc.sets))
    real_io = t2listing.io
    t2listing.io = shim
    try:
        with quiet(), core.timelimit(600):
            lst = t2listing.t2listing(path, skip_tables=skip_tables)
    except BudgetExceeded as e:
        if shim.made is not None:
            shim.made.close()
        raise OpenFailed('nontermination', 'opening %s does not terminate: %s' % (path, e))
    except (core.CaseTimeout, core.HarnessError):
        raise
    except Exception as e:
        if shim.made is not None:
            shim.made.close()
        raise OpenFailed('raises-%s' % type(e).__name__, 'opening %s raised %r' % (path, e))
    finally:
        t2listing.io = real_io
    if not isinstance(lst._file, CountingFile):
        lst._file = CountingFile(lst._file, sc.nlines, len(sc.sets))
    lst._file.disarm()
    return lst


def close_listing(lst):
    try:
        lst.close()
    except Exception:
        pass


def clone_listing(src):
    """Independent copy of a listing object: everything in __dict__ deep-copied, own file handle at the same
    offset, bound methods (detect_simulator stores them in __dict__) bound to the copy."""
    cls = type(src)
    new = cls.__new__(cls)
    cf = src._file
    raw = io.open(src.filename, 'rb', newline=None)
    raw.seek(cf.tell())
    ncf = CountingFile(raw, 1, 0)
    ncf.budget, ncf.eof_budget = cf.budget, cf.eof_budget
    memo = {id(src): new, id(cf): ncf}
    new.__dict__.update(copy.deepcopy(src.__dict__, memo))
    return new


def _same(a, b, path, diffs, memo):
    """Structural comparison of two object graphs (used once per pristine entry)."""
    if len(diffs) > 5:
        return
    key = (id(a), id(b))
    if key in memo:
        return
    memo.add(key)
    if type(a) is not type(b):
        diffs.append('%s: %s vs %s' % (path, type(a).__name__, type(b).__name__))
    elif isinstance(a, np.ndarray):
        if a.shape != b.shape or a.dtype != b.dtype or a.tobytes() != b.tobytes():
            diffs.append('%s: arrays differ' % path)
    elif isinstance(a, dict):
        if list(a.keys()) != list(b.keys()):
            diffs.append('%s: keys differ' % path)
        else:
            for k in a:
                _same(a[k], b[k], '%s[%r]' % (path, k), diffs, memo)
    elif isinstance(a, (list, tuple)):
        if len(a) != len(b):
            diffs.append('%s: length %d vs %d' % (path, len(a), len(b)))
        else:
            for i, (x, y) in enumerate(zip(a, b)):
                _same(x, y, '%s[%d]' % (path, i), diffs, memo)
    elif isinstance(a, CountingFile):
        if a.tell() != b.tell():
            diffs.append('%s: offset %d vs %d' % (path, a.tell(), b.tell()))
    elif hasattr(a, '__func__') and hasattr(a, '__self__'):
        if a.__func__ is not b.__func__:
            diffs.append('%s: different method' % path)
    elif hasattr(a, '__dict__') and not isinstance(a, type):
        _same(a.__dict__, b.__dict__, path + '.__dict__', diffs, memo)
    else:
        if not (a == b or (a != a and b != b)):
            diffs.append('%s: %r vs %r' % (path, a, b))


class Pristine(object):
    """Per-process cache of pristine freshly opened listings; fresh(path) hands out independent copies.
    The pristine object itself is never navigated."""

    def __init__(self):
        self._proto = {}

    def fresh(self, path):
        proto = self._proto.get(path)
        if proto is None:
            proto = open_listing(path)
            other = open_listing(path)
            c = clone_listing(proto)
            diffs = []
            _same(c, other, 'lst', diffs, set())
            _same(proto, other, 'lst', diffs, set())
            if c._file is proto._file or any(c._table[t]._data is proto._table[t]._data for t in c._table):
                diffs.append('copy shares state with its source')
            close_listing(other)
            close_listing(c)
            if diffs:
                raise core.HarnessError('copy of a freshly opened listing differs from a fresh open of %s: %s'
                                        % (path, '; '.join(diffs)))
            self._proto[path] = proto
        return clone_listing(proto)

    def drop(self, path):
        p = self._proto.pop(path, None)
        if p is not None:
            close_listing(p)
        _scan_cache.pop(path, None)

    def close(self):
        for p in self._proto.values():
            close_listing(p)
        self._proto = {}


def full_state_digest(lst):
    """Digest of EVERYTHING the reader object holds - every attribute, recursively, including which
    arrays/lists/dicts are one and the same object (aliasing) - except the file object (its offset is
    part of the state separately) and the simulator-specific bound methods.

    It is the digest of a pickle of the attribute dictionary: pickle writes every container and array
    once and a back-reference wherever the same object occurs again, so two readers whose attributes are
    equal but share arrays differently (say a table whose data array is also held in a cache) get
    different digests.  The canonical state of C07 is built on this, so that no two states are merged on
    the faith that only the documented cursor fields matter.  Over-fine is safe."""
    import pickle
    d = {}
    for k, v in lst.__dict__.items():
        if k == '_file' or (hasattr(v, '__func__') and getattr(v, '__self__', None) is lst):
            continue
        d[k] = v
    # the directory of the file is not state (truncated copies live in per-worker scratch directories, and the
    # shards of one search must agree on the digest of a state)
    if isinstance(d.get('filename'), str):
        d['filename'] = os.path.basename(d['filename'])
    try:
        blob = pickle.dumps(d, protocol=4)
    except Exception as e:
        raise core.HarnessError('the reader state cannot be serialised for the canonical form: %r' % (e,))
    return hashlib.blake2b(blob, digest_size=16).hexdigest()


def table_digest(table):
    d = table._data
    h = hashlib.blake2b(digest_size=8)
    h.update(repr((d.shape, str(d.dtype), len(table.row_name), len(table.column_name))).encode())
    h.update(np.ascontiguousarray(d).tobytes())
    return h.hexdigest()


def names_digest(table):
    return '%016x' % core.h64((table.row_name, table.column_name))


def observe(lst, names=False):
    """(index, time, step, ((table, digest), ...)) - what the reader shows.  With names=True the row and
    column names are part of each table's digest."""
    tabs = []
    for t in sorted(lst._table):
        dg = table_digest(lst._table[t])
        if names:
            dg += names_digest(lst._table[t])
        tabs.append((t, dg))
    if names:
        # the SET of tables the reader offers is part of what it shows: through table_names, and as attributes
        # (lst.element ...) that are the very objects of the table dictionary
        offered = tuple(lst.table_names)
        attrs = tuple(n for n in TABLE_ATTRIBUTES if getattr(lst, n, None) is not None)
        same = tuple(n for n in attrs if getattr(lst, n) is lst._table.get(n))
        tabs.append(('(tables offered)', repr((offered, attrs, same))))
    return (int(lst._index), repr(float(lst._time)), int(lst._step), tuple(tabs))


TABLE_ATTRIBUTES = ('element', 'element1', 'element2', 'connection', 'primary', 'generation')


def row_picks(n):
    out = []
    for r in (0, n // 2, n - 1):
        if 0 <= r < n and r not in out:
            out.append(r)
    return out


def read_accessors(lst):
    """What the table accessors return: for every table, the first/middle/last row read by name, by non-negative
    row number and by negative row number, and the first and last column.  {(table, form): digest}.  Reading is
    an action of its own in C07 (a table may memoise what it hands out), never part of a silent observation."""
    out = {}
    for t in sorted(lst._table):
        tb = lst._table[t]
        n = tb.num_rows
        acc = {'name': [], 'index': [], 'negative-index': [], 'column': []}
        for r in row_picks(n):
            for form, key in (('name', tb.row_name[r]), ('index', r), ('negative-index', r - n)):
                row = tb[key]
                acc[form].append(None if row is None else sorted((str(k), repr(v)) for k, v in row.items()))
        for c in (tb.column_name[0], tb.column_name[-1]):
            col = tb[c]
            acc['column'].append(None if col is None else hashlib.blake2b(np.ascontiguousarray(col).tobytes(),
                                                                          digest_size=8).hexdigest())
        for form, v in acc.items():
            out[(t, form)] = '%016x' % core.h64(v)
    return out


def table_kinds_by_result_set(path):
    """For a TOUGH2-family listing: per result set, the set of distinct table header kinds printed in it (first
    three header words, e.g. ('ELEM.', 'INDEX', 'P') / ('ELEM.', 'INDEX', 'X1') / ('ELEM1', 'ELEM2', 'INDEX')).
    Independent line scan; used only to pick files for the quick tier."""
    sc = scan_of(path)
    if sc.family != 'TOUGH2':
        return []
    with open(path, 'rb') as f:
        lines = [l.decode('latin-1') for l in f.read().splitlines()]
    bounds = [s.line for s in sc.sets] + [len(lines)]
    out = []
    for a, b in zip(bounds[:-1], bounds[1:]):
        kinds = set()
        for l in lines[a:b]:
            w = l.split()[:3]
            if len(w) == 3 and w[0].upper() in ('ELEM.', 'ELEM', 'ELEM1', 'ELEMENT') and \
                    any(x.upper() in ('INDEX', 'IND.') for x in w[1:]):
                kinds.add(tuple(x.upper() for x in w))
        out.append(kinds)
    return out


def tables_vary(path):
    k = table_kinds_by_result_set(path)
    return any(x != k[0] for x in k[1:]) if k else False


def truncated_copy(path, k, tag=''):
    """Copy of the listing keeping its first k full result sets (cut at the header of the next result set),
    under the worker's scratch directory, with the original base name (TOUGH2_MP is recognised by it).
    Returns the original path when nothing would be cut."""
    sc = scan_of(path)
    cut = sc.cut_after_full(k)
    if cut >= sc.size:
        return path
    d = os.path.join(core.scratch(), 'trunc', '%016x' % core.h64((path, tag)), 'k%d' % k)
    os.makedirs(d, exist_ok=True)
    out = os.path.join(d, os.path.basename(path))
    if not (os.path.exists(out) and os.path.getsize(out) == cut):
        with open(path, 'rb') as f:
            data = f.read(cut)
        with open(out, 'wb') as f:
            f.write(data)
    return out


def removable_table_blocks(path):
    """Per FULL result set of the file: [(label, byte_start, byte_end)] of the printed blocks of the tables after the
    first one - what has to be deleted to get a listing in which that result set does not print that table.
    Independent line scan.  TOUGH2 family: a block runs from the line after the previous '@@@@@...' separator to the
    block's own closing separator and contains a 'KCYC = .. ITER = ..' line (a block without closing separator, as at
    the end of some TOUGH2_MP result sets, is not offered).  AUTOUGH2: from the table's opening keyword line to its
    closing keyword line and the blank line after it.  TOUGH+ is not handled (returns no blocks)."""
    sc = scan_of(path)
    with open(path, 'rb') as f:
        data = f.read()
    offs, lines, pos = [], [], 0
    for raw in data.splitlines(True):
        offs.append(pos)
        lines.append(raw.decode('latin-1').rstrip('\r\n'))
        pos += len(raw)
    offs.append(pos)
    bounds = [s.line for s in sc.sets] + [len(lines)]
    out = []
    for j, s in enumerate(sc.sets):
        if s.kind != 'full':
            continue
        a, b = bounds[j], bounds[j + 1]
        blocks = []
        if sc.family == 'TOUGH2':
            if any(l.startswith('=====') or l.startswith(' =====') for l in lines[a:b]):
                out.append([])            # TOUGH+
                continue
            seps = [i for i in range(a, b) if lines[i][1:11] == '@' * 10]
            for p0, p1 in zip(seps[:-1], seps[1:]):
                body = lines[p0 + 1:p1]
                k = [l for l in body if 'KCYC =' in l and 'ITER =' in l]
                heads = [l.split()[:3] for l in body if l.split()[:1] and l.split()[0].upper() in
                         ('ELEM.', 'ELEM', 'ELEM1', 'ELEMENT') and any(x.upper() in ('INDEX', 'IND.') for x in l.split()[1:3])]
                if k and heads:
                    blocks.append((' '.join(heads[0]), offs[p0 + 1], offs[p1 + 1]))
        else:
            kw = [(i, navmodel._KW.match(lines[i]).group(1)) for i in range(a, b) if navmodel._KW.match(lines[i])]
            i = 0
            while i + 2 < len(kw) + 0 and i + 2 <= len(kw) - 1:
                (i0, k0), (i1, k1), (i2, k2) = kw[i], kw[i + 1], kw[i + 2]
                if k0 == k1 == k2:
                    if k0 != 'EEEEE':
                        end = i2 + 1
                        if end < len(lines) and not lines[end].strip():
                            end += 1
                        blocks.append((k0, offs[i0], offs[end]))
                    i += 3
                else:
                    i += 1
        out.append(blocks)
    return out


def copy_without_block(path, block, tag):
    """Copy of 'path' (in the worker's scratch directory, same base name) with the bytes [start, end) removed."""
    label, start, end = block
    d = os.path.join(core.scratch(), 'cut', '%016x' % core.h64((path, tag, start, end)))
    os.makedirs(d, exist_ok=True)
    out = os.path.join(d, os.path.basename(path))
    with open(path, 'rb') as f:
        data = f.read()
    with open(out, 'wb') as f:
        f.write(data[:start] + data[end:])
    return out
