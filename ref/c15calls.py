"""C15 clause (h): order independence over a lattice of CALLS (routine x arguments), not only of variants at one state.

The routines of t2thermo (and IAPWS97) are pure functions of their arguments: the value of a call may not depend on
which call - the same routine with other arguments, with another number of separator stages, with the range flag set
differently, or another routine - came before it in the process.  A correct memo passes; only values are compared.

A call is a JSON-able spec [routine, [args...]]; routine is a name in t2thermo, or 'IAPWS97.<name>'.
Only C15 imports this module.
"""
from ref import thermo as R

# argument kinds per routine (for the relation class of a signature): t temperature, p pressure, h enthalpy, b flag
KINDS = {
    'cowat': ('t', 'p', 'b'), 'supst': ('t', 'p', 'b'), 'sat': ('t', 'b'), 'tsat': ('p', 'b'), 'region': ('t', 'p'),
    'b23p': ('t',), 'separated_steam_fraction': ('h', 'P1', 'P2'),
    'IAPWS97.cowat': ('t', 'p'), 'IAPWS97.supst': ('t', 'p'), 'IAPWS97.sat': ('t',), 'IAPWS97.tsat': ('p',),
    'IAPWS97.region': ('t', 'p'),
}
KIND_OF = {'t': 't', 'p': 'p', 'P1': 'p', 'P2': 'p', 'h': 'h', 'b': 'b'}

LATTICE = {
    'quick': dict(
        ts=[0.01, 50., 100., 200., 300., 350., 360., 374.15, 400., 590., 700., 800.],
        ps=[1.0e3, 1.0e5, 5.0e5, 1.0e6, 5.0e6, 2.0e7, 5.0e7, 1.0e8],
        sep_h=[5.0e5, 9.0e5, 1.5e6, 2.5e6], sep_p=[1.0e5, 5.0e5, 1.0e6, 2.0e6, 5.0e6],
        core_sep_h=[9.0e5, 1.5e6], core_sep_p=[5.0e5, 1.0e6], core_states=1),
    'thorough': dict(
        ts=[0.01, 25., 50., 100., 150., 200., 250., 300., 340., 350., 355., 360., 370., 374.15, 380., 400., 500., 590.,
            700., 800.],
        ps=[1.0e3, 1.0e4, 1.0e5, 2.0e5, 5.0e5, 1.0e6, 2.0e6, 5.0e6, 1.0e7, 2.0e7, 5.0e7, 1.0e8],
        sep_h=[0., 5.0e5, 9.0e5, 1.5e6, 2.5e6, 3.5e6], sep_p=[1.0e5, 2.0e5, 5.0e5, 1.0e6, 2.0e6, 3.0e6, 4.0e6, 5.0e6],
        core_sep_h=[9.0e5, 1.5e6, 2.5e6], core_sep_p=[1.0e5, 5.0e5, 1.0e6], core_states=2),
}
IAPWS_STATES = [(100., 1.0e6), (300., 1.0e6), (300., 5.0e6)]
CORE_STATES = [((100., 5.0e5), (300., 1.0e6)), ((350., 2.0e7), (400., 5.0e5))]


MAX_PRIMERS = 64
MAX_REDUCED = 24


def sep_calls(hs, ps):
    return [['separated_steam_fraction', [h, p1, p2]] for h in hs for p1 in ps for p2 in [None] + list(ps)]


def call_lattice(tier):
    """Every call of the pair clause: (cowat, supst) x bounds x ts x ps, region x ts x ps, sat x bounds x ts,
    b23p x ts, tsat x bounds x ps, separated_steam_fraction x sep_h x sep_p x ({single stage} + sep_p), and the
    IAPWS-97 counterparts at three states."""
    L = LATTICE[tier]
    c = []
    for t in L['ts']:
        for p in L['ps']:
            for b in (False, True):
                c.append(['cowat', [t, p, b]])
                c.append(['supst', [t, p, b]])
            c.append(['region', [t, p]])
        for b in (False, True):
            c.append(['sat', [t, b]])
        c.append(['b23p', [t]])
    for p in L['ps']:
        for b in (False, True):
            c.append(['tsat', [p, b]])
    c += sep_calls(L['sep_h'], L['sep_p'])
    for t, p in IAPWS_STATES:
        c += [['IAPWS97.cowat', [t, p]], ['IAPWS97.supst', [t, p]], ['IAPWS97.region', [t, p]]]
    c += [['IAPWS97.sat', [100.]], ['IAPWS97.sat', [300.]], ['IAPWS97.tsat', [1.0e6]]]
    return c


def core_calls(tier):
    """The calls of the triple clause: the separator sub-lattice core_sep_h x core_sep_p x ({single stage} +
    core_sep_p) and, per pair of states ((t1, p1), (t2, p2)), eleven calls of the other routines."""
    L = LATTICE[tier]
    c = sep_calls(L['core_sep_h'], L['core_sep_p'])
    for (t1, p1), (t2, p2) in CORE_STATES[:L['core_states']]:
        c += [['cowat', [t1, p1, False]], ['cowat', [t1, p2, True]], ['supst', [t2, p1, False]],
              ['supst', [t2, p2, True]], ['sat', [t1, False]], ['sat', [t2, True]], ['tsat', [p1, False]],
              ['tsat', [p2, True]], ['region', [t1, p1]], ['region', [t2, p2]], ['b23p', [t2]]]
    return c


def vclass(spec):
    name, a = spec
    if name == 'separated_steam_fraction':
        return '%s(%s)' % (name, 'single-stage' if a[2] is None else 'two-stage')
    k = KINDS[name]
    if 'b' in k:
        return '%s(bounds=%s)' % (name, a[k.index('b')])
    return name


def relation(cur, prev):
    """Which arguments of the call share their value with an argument of the same kind of the earlier call."""
    eq = []
    for kc, vc in zip(KINDS[cur[0]], cur[1]):
        if kc == 'b' or vc is None:
            continue
        for kp, vp in zip(KINDS[prev[0]], prev[1]):
            if kp != 'b' and vp is not None and KIND_OF[kc] == KIND_OF[kp] and vc == vp:
                eq.append('%s=%s' % (kc, kp))
    return 'same:' + (','.join(eq) if eq else 'none')


def resolve(T, I, spec):
    name = spec[0]
    if name.startswith('IAPWS97.'):
        return getattr(I, name[8:])
    return getattr(T, name)


def run_call(T, I, spec, timeout_exc):
    try:
        return R.canon(resolve(T, I, spec)(*spec[1]))
    except timeout_exc:
        raise
    except Exception as e:
        return 'raises:' + type(e).__name__


def key(spec):
    return (spec[0], tuple(spec[1]))


def isolated(fresh, libs, calls, timeout_exc):
    """{key: value of the call as the first call after a fresh import}"""
    iso = {}
    for s in calls:
        k = key(s)
        if k not in iso:
            fresh()
            T, I = libs()
            iso[k] = run_call(T, I, s, timeout_exc)
    fresh()
    return iso


class Runner(object):
    """Runs a sequence of calls without restoring isolation in between and compares every result with the isolated
    value.  Deviations are reduced to the shortest history (one or two earlier calls from a fresh state) that
    reproduces them."""

    def __init__(self, fresh, libs, iso, timeout_exc):
        self.fresh, self.libs, self.iso, self.tx = fresh, libs, iso, timeout_exc
        self.hist = []
        self.seen = {}          # every distinct call of the running history, in order of last use
        self.n = 0
        self.bad = {}
        fresh()
        self.T, self.I = libs()

    def do(self, spec):
        got = run_call(self.T, self.I, spec, self.tx)
        self.n += 1
        want = self.iso[key(spec)]
        if got != want:
            self.deviation(spec, want, got)
            self.hist = []          # the reduction restored isolation: what follows is a new history
        else:
            self.hist = (self.hist + [spec])[-2:]
        k = key(spec)
        self.seen.pop(k, None)
        self.seen[k] = spec

    def replay_seq(self, seq):
        """Value of the last call of seq when seq is run from a fresh state."""
        self.fresh()
        T, I = self.libs()
        got = None
        for s in seq:
            got = run_call(T, I, s, self.tx)
        return got

    def deviation(self, spec, want, got):
        hist = list(self.hist)
        # at most 3 reductions per (class of the call, class of the call before it) and MAX_REDUCED per unit: further
        # deviations of a class already reported are only counted
        cls = (vclass(spec), vclass(hist[-1]) if hist else None)
        self.deviations = getattr(self, 'deviations', 0) + 1
        self.reduced = getattr(self, 'reduced', {})
        if self.bad and (self.reduced.get(cls, 0) >= 3 or sum(self.reduced.values()) >= MAX_REDUCED):
            return
        self.reduced[cls] = self.reduced.get(cls, 0) + 1
        seq = None
        # one primer: the call just before, then every earlier distinct call that shares an argument value with this
        # one (most recent first); then the two calls just before
        cands = hist[-1:] + [s for s in reversed(list(self.seen.values()))
                             if relation(spec, s) != 'same:none' and s not in hist[-1:]][:MAX_PRIMERS]
        for q in cands:
            g2 = self.replay_seq([q, spec])
            if g2 != want:
                seq, got = [q, spec], g2
                break
        if seq is None and len(hist) >= 2:
            g2 = self.replay_seq(hist + [spec])
            if g2 != want:
                seq, got = hist + [spec], g2
        self.T, self.I = self.libs()
        prev = hist[-1] if hist else None
        if seq is not None:
            after = '+'.join(vclass(s) for s in seq[:-1])
            rel = relation(spec, seq[-2])
        else:
            after = 'longer-history'
            rel = 'any'
        sig = 'C15|%s|result-depends-on-earlier-calls|after=%s|%s' % (vclass(spec), after, rel)
        if sig not in self.bad:
            self.bad[sig] = (seq, spec, want, got, after)


def fmt(spec):
    return '%s(%s)' % (spec[0], ', '.join(repr(a) for a in spec[1]))


def replay_case(fresh, libs, seq, timeout_exc):
    """[] or [(sig, what)] for a recorded sequence: the last call's value after the earlier ones vs isolated."""
    fresh()
    T, I = libs()
    want = run_call(T, I, seq[-1], timeout_exc)
    fresh()
    T, I = libs()
    got = None
    for s in seq:
        got = run_call(T, I, s, timeout_exc)
    fresh()
    if got == want:
        return []
    after = '+'.join(vclass(s) for s in seq[:-1])
    sig = 'C15|%s|result-depends-on-earlier-calls|after=%s|%s' % (vclass(seq[-1]), after, relation(seq[-1], seq[-2]))
    return [(sig, '%s gives %s as the first call after a fresh import but %s after %s'
             % (fmt(seq[-1]), want, got, ', '.join(fmt(s) for s in seq[:-1])))]
