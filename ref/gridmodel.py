"""Reference model of a TOUGH2 grid: plain lists and dicts of names.

Written from the documentation of the operations (doc/source/t2grids.rst, section "Methods", and
doc/source/t2data.rst for rename_blocks), not from the implementation.  The model has no objects and
therefore no second view that could disagree: one ordered list of names per kind and one dict of
payloads per kind.

    rocks   [rock name, ...]                          the order of grid.rocktypelist
    blocks  [block name, ...]                         the order of grid.blocklist
    binfo   {block name: {'rock', 'volume', 'centre'}}
    conns   [(name1, name2), ...]                     the order of grid.connectionlist, oriented
    cinfo   {(name1, name2): {'d': [d1, d2], 'area', 'dircos', 'direction'}}
            d[i] is the distance from block i of the pair to the interface; dircos is the gravity
            cosine for the orientation name1 -> name2, so listing the pair the other way round
            swaps d and changes the sign of dircos (same physics, other description).

Each operation is what its documentation paragraph says, in a few lines.  Where the documentation
leaves something open (which of two equally popular rock types check(fix=True) picks) the model
offers a predicate instead of a value.
"""
import copy


def fix_blockname(name):
    """TOUGH2 reads a name as (a3, i2): 'AB1 5' and 'AB105' are the same block, and PyTOUGH keeps the form
    with the zero - a blank in column 4 between digits in columns 3 and 5 becomes '0'."""
    if len(name) == 5 and name[2].isdigit() and name[4].isdigit() and name[3] == ' ':
        return name[:3] + '0' + name[4]
    return name


class ModelError(Exception):
    """The documentation says this call raises (or is not meaningful)."""


class GridModel(object):

    def __init__(self):
        self.rocks, self.blocks, self.conns = [], [], []
        self.binfo, self.cinfo = {}, {}

    def copy(self):
        m = GridModel()
        m.rocks, m.blocks, m.conns = list(self.rocks), list(self.blocks), list(self.conns)
        m.binfo = {k: dict(v) for k, v in self.binfo.items()}
        m.cinfo = {k: dict(v, d=list(v['d'])) for k, v in self.cinfo.items()}
        return m

    __deepcopy__ = lambda self, memo: self.copy()

    # ---- queries -------------------------------------------------------------------------------
    def cons_of(self, name):
        return [c for c in self.conns if name in c]

    def neighbours(self, name):
        return [a if b == name else b for (a, b) in self.cons_of(name)]

    def rock_in_use(self, rock):
        return any(i['rock'] == rock for i in self.binfo.values())

    def unconnected(self):
        return [b for b in self.blocks if not self.cons_of(b)]

    def isolated(self, bc_volume=1.e20):
        """Blocks whose rock type is shared with none of their neighbours; large-volume blocks never count."""
        return [b for b in self.blocks if self.binfo[b]['volume'] < bc_volume and
                self.binfo[b]['rock'] not in [self.binfo[n]['rock'] for n in self.neighbours(b)]]

    # ---- rock types ----------------------------------------------------------------------------
    def add_rocktype(self, name):
        """Adds a rock type; an existing one of the same name is replaced."""
        if name not in self.rocks:
            self.rocks.append(name)

    def delete_rocktype(self, name):
        if name in self.rocks:
            self.rocks.remove(name)

    def rename_rocktype(self, old, new):
        """Raises if old does not exist or new is already used; blocks of that rock type follow."""
        if old not in self.rocks or new in self.rocks:
            raise ModelError('rename_rocktype')
        self.rocks[self.rocks.index(old)] = new
        for i in self.binfo.values():
            if i['rock'] == old:
                i['rock'] = new

    def clean_rocktypes(self):
        """Deletes the rock types not assigned to any block."""
        self.rocks = [r for r in self.rocks if self.rock_in_use(r)]

    # ---- blocks --------------------------------------------------------------------------------
    def add_block(self, name, rock, volume, centre=None):
        """Adds a block; an existing one of the same name is replaced."""
        if name not in self.blocks:
            self.blocks.append(name)
        self.binfo[name] = {'rock': rock, 'volume': volume, 'centre': centre}

    def delete_block(self, name):
        """Deletes the block and any connection involving it."""
        if name in self.blocks:
            for c in self.cons_of(name):
                self.delete_connection(c)
            self.blocks.remove(name)
            del self.binfo[name]

    def demote_block(self, names):
        """Shifts the block(s) to the end of the block list, one after the other."""
        for n in ([names] if isinstance(names, str) else names):
            self.blocks.remove(n)
            self.blocks.append(n)

    # ---- connections ---------------------------------------------------------------------------
    def add_connection(self, pair, d, area, dircos, direction):
        """Adds a connection; an existing one with the same names is replaced."""
        pair = tuple(pair)
        if pair not in self.conns:
            self.conns.append(pair)
        self.cinfo[pair] = {'d': list(d), 'area': area, 'dircos': dircos, 'direction': direction}

    def delete_connection(self, pair):
        pair = tuple(pair)
        if pair in self.conns:
            self.conns.remove(pair)
            del self.cinfo[pair]

    # ---- whole-grid edits ----------------------------------------------------------------------
    def reorder(self, block_names=None, connection_names=None):
        """Blocks (and connections) take the listed order.  A pair may be listed reversed with respect
        to the existing connection: that connection is then held under the reversed pair - the same
        interface described from the other side.  A name that exists in neither form is an error.
        Reordering never removes anything: blocks / connections the list does not name (e.g. MINC matrix
        blocks when the order comes from a geometry) stay in the grid, after the named ones, in the order
        they had.  (The documentation is silent on incomplete lists; the call may also refuse them - the
        caller of the model decides that, see checks/c08.py.)"""
        if block_names:
            if any(n not in self.binfo for n in block_names) or len(set(block_names)) != len(block_names):
                raise ModelError('reorder: unknown or repeated block name')
            self.blocks = list(block_names) + [b for b in self.blocks if b not in block_names]
        if connection_names:
            conns, cinfo, used = [], {}, set()
            for pair in map(tuple, connection_names):
                if pair in self.cinfo and pair not in used:
                    cinfo[pair] = self.cinfo[pair]
                    used.add(pair)
                elif pair[::-1] in self.cinfo and pair[::-1] not in used:
                    i = self.cinfo[pair[::-1]]
                    cinfo[pair] = dict(i, d=i['d'][::-1], dircos=None if i['dircos'] is None else -i['dircos'])
                    used.add(pair[::-1])
                else:
                    raise ModelError('reorder: unknown connection')
                conns.append(pair)
            for pair in self.conns:
                if pair not in used:
                    conns.append(pair)
                    cinfo[pair] = self.cinfo[pair]
            self.conns, self.cinfo = conns, cinfo

    def rename_blocks(self, blockmap, fix_blocknames=True):
        """Every block whose name is a key of the mapping takes the mapped name - all at once, so swaps
        and cycles are ordinary maps.  Connections follow their blocks.  With fix_blocknames (the default)
        the names in the mapping, keys and values, are first 'fixed' with fix_blockname()."""
        if fix_blocknames:
            blockmap = dict((fix_blockname(k), fix_blockname(v)) for k, v in blockmap.items())
        f = lambda n: blockmap.get(n, n)
        self.blocks = [f(n) for n in self.blocks]
        self.binfo = {f(n): i for n, i in self.binfo.items()}
        self.conns = [(f(a), f(b)) for (a, b) in self.conns]
        self.cinfo = {(f(a), f(b)): i for (a, b), i in self.cinfo.items()}

    def check_fix(self):
        """check(fix=True): unconnected blocks are deleted; isolated-rocktype blocks get the most popular
        rock type of their neighbours.  Returns (ok, isolated block names).  The deletion is applied
        here; the re-assignment is adopted from the caller through check_fix_adopt, which judges it
        (ties, and the order in which several isolated blocks are fixed, are left open by the text)."""
        unc = self.unconnected()
        for b in unc:
            self.delete_block(b)
        iso = self.isolated()
        return (not unc and not iso), iso

    def check_fix_adopt(self, iso, after_rock):
        """after_rock: {block: rock name} observed after the fix.  Returns the blocks whose new rock type
        the documentation does not allow, and adopts the allowed ones.  A block that was not isolated
        keeps its rock type.  An isolated block none of whose neighbours is isolated too must get a
        most frequent rock type among its neighbours; if a neighbour is being fixed as well, any rock
        type a neighbour had before or has after is accepted."""
        before = {b: self.binfo[b]['rock'] for b in self.blocks}
        bad = []
        for b in self.blocks:
            if b not in iso:
                ok = after_rock[b] == before[b]
            else:
                nb = self.neighbours(b)
                if not any(n in iso for n in nb):
                    rocks = [before[n] for n in nb]
                    top = max(rocks.count(r) for r in rocks)
                    ok = after_rock[b] in [r for r in rocks if rocks.count(r) == top]
                else:
                    ok = after_rock[b] in [before[n] for n in nb] + [after_rock[n] for n in nb]
            if not ok:
                bad.append(b)
        for b in self.blocks:
            if b not in bad:
                self.binfo[b]['rock'] = after_rock[b]
        return bad

    def minc(self, fractions, blocks=None, atmos_volume=1.e25,
             matrix_blockname=lambda name, level: str(level) + name[len(str(level)):],
             minc_rockname=lambda rock, level: rock if level == 0 else 'X' + rock[1:],
             d=None, area_per_volume=None):
        """MINC: every selected block with 0 < volume < atmos_volume keeps its name as the fracture block
        with volume fraction f0 of the original; matrix level m gets a new block (first character of
        the name replaced by the level), fraction fm of the original volume, the matrix rock type
        (first character replaced by 'X'; created when missing), and is connected to level m-1.
        Fractions are scaled to sum to 1.  d / area_per_volume optionally give the nested connection
        geometry (lists per connection level) when the caller wants payloads too."""
        total = float(sum(fractions))
        f = [x / total for x in fractions]
        if blocks is None or blocks == []:
            blocks = list(self.blocks)
        added = []
        for name in blocks:
            info = self.binfo[name]
            vol, rock = info['volume'], info['rock']
            if not (0. < vol < atmos_volume):
                continue
            info['volume'] = vol * f[0]
            last = name
            for m in range(1, len(f)):
                mname, mrock = matrix_blockname(name, m), minc_rockname(rock, m)
                if mname in self.blocks:
                    raise ModelError('duplicate MINC matrix block name')
                self.add_rocktype(mrock)
                self.add_block(mname, mrock, vol * f[m], info['centre'])
                self.add_connection((last, mname),
                                    [d[m - 1], d[m]] if d else [None, None],
                                    vol * area_per_volume[m - 1] if area_per_volume else None, None, 1)
                added.append(mname)
                last = mname
            self.add_rocktype(minc_rockname(rock, 0))
            info['rock'] = minc_rockname(rock, 0)
        return added

    def plus(self, other):
        """a + b: a new grid holding both; whatever exists in both is taken from b, no duplicates."""
        r = GridModel()
        for g in (self, other):
            for k in g.rocks:
                r.add_rocktype(k)
            for b in g.blocks:
                r.add_block(b, **g.binfo[b])
            for c in g.conns:
                r.add_connection(c, **g.cinfo[c])
        return r

    def embed(self, sub, pair, d, area, dircos, direction):
        """Sub-grid placed inside the host block pair[0], joined to it through pair[1] of the sub-grid:
        the union of both grids plus the joining connection; the host block gives up the sub-grid's
        volume.  None when the host is not big enough or a block name occurs in both grids."""
        subvol = sum(sub.binfo[b]['volume'] for b in sub.blocks)
        if not subvol < self.binfo[pair[0]]['volume'] or set(self.blocks) & set(sub.blocks):
            return None
        r = self.plus(sub)
        r.add_connection(pair, d, area, dircos, direction)
        r.binfo[pair[0]]['volume'] -= subvol
        return r

    # ---- physics (C09) -------------------------------------------------------------------------
    def physics(self):
        return physics(self.blocks, self.binfo, self.conns, self.cinfo)


def physics(blocks, binfo, conns, cinfo):
    """The flow network irrespective of list order and of which way round a pair is written:
    ({block: (volume, rock, centre)}, sorted list of per-interface records).
    An interface record is (sorted pair, {block: own distance} as sorted items, area, direction,
    upper block or None, |cosine| or None).  With block 0 -> block 1 orientation a negative cosine means
    block 1 is the upper block (t2grid.fromgeo writes [lower, upper] pairs with cosine -1)."""
    bl = {n: (binfo[n]['volume'], binfo[n]['rock'],
              None if binfo[n]['centre'] is None else tuple(float(x) for x in binfo[n]['centre'])) for n in blocks}
    cl = []
    for pair in conns:
        i = cinfo[pair]
        cos = i['dircos']
        upper = None if not cos else (pair[1] if cos < 0 else pair[0])
        own = tuple(sorted(zip(pair, [None if x is None else float(x) for x in i['d']])))
        cl.append((tuple(sorted(pair)), own, i['area'], i['direction'], upper, None if cos is None else abs(cos)))
    cl.sort(key=repr)
    return bl, cl
